"""C16: conformance of the daacfind binary (built from /repo's current tree) to spec/Daacfind.tla.

Generates pattern lists (-p / -f), LF-terminated UTF-8 inputs (stdin / files), all combinations of -n, -h,
--color=never|always; runs the real binary; parses stdout (SGR sequences -> per-byte highlight flags) into `cli`
events; TLC validates the events against spec/TraceCli.tla.  Inputs stay inside the property's quantifier: patterns
are non-empty, duplicate-free, valid UTF-8 without NUL/CR/LF; a list whose first byte is '-' goes through -f (that is
clap's option syntax, not the tool's logic); lines contain no CR/LF.
"""
import json, os, random, re, shutil, subprocess, sys, time

ALPHAS = [list("ab"), list("abc "), list("ab世é "), list("a-:1 b"), list("é世😀a"), list("xyz0:")]
SGR = re.compile(rb"\x1b\[([0-9;]*)m")


def gen_invocation(rng, i):
    alpha = rng.choice(ALPHAS)
    npat = rng.randint(1, 5)
    pats = []
    tries = 0
    while len(pats) < npat and tries < 100:
        tries += 1
        if pats and rng.random() < 0.35:
            base = rng.choice(pats)
            # prefix / suffix extensions, and a pattern strictly inside a longer one (infix)
            p = rng.choice([base + rng.choice(alpha), base[1:], rng.choice(alpha) + base,
                            rng.choice(alpha) + base + rng.choice(alpha),
                            rng.choice(alpha) + base + rng.choice(alpha) + rng.choice(alpha),
                            base[1:-1] if len(base) >= 3 else base + base])
        else:
            p = "".join(rng.choice(alpha) for _ in range(rng.randint(1, 3)))
        if p and p not in pats:
            pats.append(p)
    runs = None
    if rng.random() < 0.06:
        # long self-overlapping patterns: a byte can be covered by hundreds of occurrences
        c = rng.choice(alpha)
        n = rng.choice([127, 128, 129, 130, 200, 256, 257, 300])
        if rng.random() < 0.5:
            pats = [c * n] + [p for p in pats if p != c * n][:2]
        else:
            pats = [c * k for k in range(1, min(n, 140) + 1)]
        runs = (c, n)
    ninputs = rng.choice([0, 0, 1, 1, 2])  # 0: stdin
    inputs = []
    for k in range(max(1, ninputs)):
        lines = []
        for _ in range(rng.randint(0, 7)):
            r = rng.random()
            if r < 0.35 and pats:
                s = ""
                for _ in range(rng.randint(1, 3)):
                    s += rng.choice(pats) if rng.random() < 0.6 else rng.choice(alpha)
                lines.append(s)
            else:
                lines.append("".join(rng.choice(alpha + ["q"]) for _ in range(rng.randint(0, 12))))
        if runs:
            c, n = runs
            lines.append(c * rng.choice([n, 2 * n - 1, 2 * n + 3]))
            lines.append(rng.choice(alpha + ["q"]) + c * (n + rng.randint(0, 5)) + "q" + c * 3)
        if rng.random() < 0.04:
            # an input several times the reader's 8 KiB buffer, made of short lines a third of which are empty:
            # block boundaries of a buffered reader then fall after empty lines, inside lines and between lines
            total = sum(len(l.encode()) + 1 for l in lines)
            want = rng.choice([8192, 16384, 24576]) + rng.randint(1, 600)
            while total < want:
                r = rng.random()
                if r < 0.34:
                    l = ""
                elif r < 0.5 and pats:
                    l = rng.choice(pats) + rng.choice(alpha)
                else:
                    l = "".join(rng.choice(alpha + ["q"]) for _ in range(rng.randint(1, 9)))
                lines.append(l)
                total += len(l.encode()) + 1
        if rng.random() < 0.03 and pats:
            # a line longer than the reader's 8 KiB buffer, with a pattern straddling the boundary
            filler = "q"  # occurs in no pattern: the occurrences are those of p only
            p = rng.choice(pats)
            pre = 8192 - rng.randint(0, len(p.encode()))
            lines.append(filler * (pre // max(1, len(filler.encode()))) + p + filler * 40 + p)
        inputs.append(dict(name="stdin" if ninputs == 0 else "in%d.txt" % k, lines=lines))
    via = "f" if (pats[0].startswith("-") or rng.random() < 0.4) else "p"
    flags = dict(n=rng.random() < 0.5, h=rng.random() < 0.4, color=rng.choice(["never", "always"]))
    return dict(id=i, pats=pats, inputs=inputs, via=via, flags=flags)


def parse_line(raw, inv, shown_names):
    """raw stdout line (bytes, no LF) -> (file, lineno, text bytes, hl flags) or None"""
    on = False
    text = bytearray()
    hl = []
    pos = 0
    while pos < len(raw):
        m = SGR.match(raw, pos)
        if m:
            # any SGR sequence that sets an attribute (colour, bold, underline, inverse ...) switches
            # highlighting on, a reset (0 / empty) or "default colour / normal intensity" switches it off
            codes = [int(c) if c.isdigit() else 0 for c in (m.group(1).split(b";") if m.group(1) else [b"0"])]
            sets = [c for c in codes if 1 <= c <= 9 or 30 <= c <= 38 or 40 <= c <= 48 or 90 <= c <= 107]
            if sets:
                on = True
            elif any(c == 0 or 21 <= c <= 29 or c in (39, 49) for c in codes):
                on = False
            pos = m.end()
        else:
            text.append(raw[pos])
            hl.append(1 if on else 0)
            pos += 1
    text = bytes(text)
    fname = ""
    off = 0
    if shown_names:
        hit = [n for n in shown_names if text.startswith(n.encode() + b":")]
        if not hit:
            return None
        fname = hit[0]
        off = len(fname) + 1
    lineno = -1
    if inv["flags"]["n"]:
        m = re.match(rb"(\d+):", text[off:])
        if not m:
            return None
        lineno = int(m.group(1))
        off += m.end()
    # prefixes are never highlighted
    if any(hl[:off]):
        return None
    return dict(file=fname, lineno=lineno, text=list(text[off:]), hl=hl[off:])


def run_invocation(binary, inv, tmp, profile):
    shutil.rmtree(tmp, ignore_errors=True)
    os.makedirs(tmp)
    args = [binary]
    if inv["via"] == "p":
        args += ["-p", "\n".join(inv["pats"])]
    else:
        with open(os.path.join(tmp, "pats.txt"), "wb") as f:
            f.write(("\n".join(inv["pats"]) + "\n").encode())
        args += ["-f", "pats.txt"]
    if inv["flags"]["n"]:
        args.append("-n")
    if inv["flags"]["h"]:
        args.append("-h")
    args.append("--color=" + inv["flags"]["color"])
    stdin = b""
    shown = []
    for inp in inv["inputs"]:
        data = "".join(l + "\n" for l in inp["lines"]).encode()
        if inp["name"] == "stdin":
            stdin = data
        else:
            with open(os.path.join(tmp, inp["name"]), "wb") as f:
                f.write(data)
            args.append(inp["name"])
            if not inv["flags"]["h"]:
                shown.append(inp["name"])
    try:
        p = subprocess.run(args, input=stdin, stdout=subprocess.PIPE, stderr=subprocess.PIPE, cwd=tmp, timeout=60)
        rc, out, err = p.returncode, p.stdout, p.stderr
    except subprocess.TimeoutExpired:
        rc, out, err = -9, b"", b"timeout"
    panic = b"panicked" in err or rc < 0 or rc == 101
    raw_lines = out.split(b"\n")
    parse_ok = True
    if raw_lines and raw_lines[-1] == b"":
        raw_lines.pop()
    elif out:
        parse_ok = False  # output not LF-terminated
    parsed = []
    for raw in raw_lines:
        # a trailing reset sequence may follow the LF of the previous line: strip leading resets
        r = parse_line(raw, inv, shown)
        if r is None:
            parse_ok = False
            parsed.append(dict(file="?", lineno=-2, text=list(raw), hl=[0] * len(raw)))
        else:
            parsed.append(r)
    return dict(ev="cli", id=inv["id"], profile=profile, via=inv["via"], flags=inv["flags"],
                pats=[list(p.encode()) for p in inv["pats"]],
                inputs=[dict(name=i["name"], lines=[list(l.encode()) for l in i["lines"]]) for i in inv["inputs"]],
                exit=rc, panic=bool(panic), stderr=err.decode("utf-8", "replace")[-300:], parse_ok=parse_ok, out=parsed)


def record(C, binaries, seed, n, work, first=0):
    trace = os.path.join(work, "cli.ndjson")
    with open(trace, "w") as f:
        for i in range(first, first + n):
            rng = random.Random(seed * 1000003 + i)
            inv = gen_invocation(rng, i)
            profile, binary = binaries[i % len(binaries)]
            ev = run_invocation(binary, inv, os.path.join(work, "run"), profile)
            f.write(json.dumps(ev) + "\n")
    return trace


def validate(C, trace, work):
    nlines = sum(1 for x in open(trace) if x.strip())
    for attempt in (1, 2):
        o = C.tlc("TraceCli.tla", "Trace.cfg", work, 1, 3000,
                  env={"TRACE": trace, "JAVA_TOOL_OPTIONS": C.JAVA_OPTS + " -Xmx8g"})
        m = re.search(r'<<"RESULT", (".*")>>', o["out"])
        if m or "Error:" in o["out"] or attempt == 2:
            break
    if not m:
        sys.stdout.write(o["out"][-5000:])
        raise C.ToolError("CLI trace validation did not complete")
    r = json.loads(json.loads(m.group(1)))
    if r["consumed"] != nlines:
        raise C.ToolError("CLI trace not consumed completely")
    return r["bad"], o


def check(C, prop, tier, seed, plan, work, workers, t0):
    binaries = [("dev", C.build_daacfind("dev"))]
    if tier == "thorough":
        binaries.append(("release", C.build_daacfind("release")))
    mc = C.model_check(plan.get("mc", []), work, workers)
    n = plan["invocations"]
    C.log("running %d invocations of the real daacfind binary (%s)" % (n, ", ".join(b[0] for b in binaries)))
    trace = record(C, binaries, seed, n, work)
    bad, o = validate(C, trace, work)
    evs = [json.loads(l) for l in open(trace)]
    known = C.load_known()
    real = []
    for b in bad[:20]:
        e = evs[b["line"] - 1]
        path = os.path.join(C.ROOT, "replays", "%s-cli-seed%d-inv%d.json" % (prop, seed, e["id"]))
        json.dump(dict(kind="cli", property=prop, seed=seed, invocation=e["id"], profile=e["profile"],
                       failed_conjuncts=b["fails"], event=e), open(path, "w"), indent=1)
        v = dict(fails=b["fails"], profile=e["profile"], stderr=e["stderr"])
        ks = [k for k in known if C.known_match(k, prop, v)]
        if ks:
            print("KNOWN-FINDING: property=%s %s" % (prop, ks[0]["what"]))
        else:
            real.append((path, b))
    printed = sum(len(e["out"]) for e in evs)
    ev = dict(
        property_id=prop, tier=tier, seed=seed, level="model_checking",
        coverage=dict(
            states=sum(m["states"] for m in mc) + o["distinct"],
            transitions=sum(m["transitions"] for m in mc) + o["generated"],
            traces_validated_against_impl=n - len(bad),
            samples=[C.trim(evs[0], 1500)] if evs else [],
            model_checking_runs=mc,
            code_to_spec=dict(invocations=n, profiles=[b[0] for b in binaries], lines_printed=printed,
                              coloured=sum(1 for e in evs if e["flags"]["color"] == "always"),
                              via_f=sum(1 for e in evs if e["via"] == "f"),
                              with_files=sum(1 for e in evs if e["inputs"][0]["name"] != "stdin"),
                              rejected=len(bad)),
            exhaustive=False, explanation=C.TITLES[prop]),
        assumptions=["stdout is the only observation of the binary; inputs are LF-terminated valid UTF-8 without CR"],
        wall_s=round(time.time() - t0, 1), violations=len(real))
    json.dump(ev, open(os.path.join(C.ROOT, "evidence", "%s.json" % prop), "w"), indent=1)
    for path, b in real:
        print("VIOLATION property=%s replay=%s" % (prop, path))
        print("  ", json.dumps(b["fails"]))
    C.log("%s %s: %s in %.1fs" % (prop, tier, "VIOLATED" if real else "held", time.time() - t0))
    return 1 if real else 0


def replay_one(C, prop, r, path, work):
    binaries = [(r["profile"], C.build_daacfind(r["profile"]))]
    trace = record(C, binaries, r["seed"], 1, work, first=r["invocation"])
    bad, _ = validate(C, trace, work)
    if bad:
        print("VIOLATION property=%s replay=%s" % (prop, path))
        print("  ", json.dumps(bad[0]["fails"]))
        return 1
    print("invocation accepted on the current tree")
    return 0
