"""Which TLC configs, replay configs and how many recorded scenarios decide each property."""

TITLES = {
    "C01": "overlapping search reports every occurrence exactly once, by end then longest first",
    "C02": "standard non-overlapping search: earliest-ending match, restart after it",
    "C03": "leftmost-longest search",
    "C04": "leftmost-first search",
    "C05": "no-suffix overlapping search: the longest match per end position",
    "C06": "every match carries the value registered for the matched pattern",
    "C07": "searching never performs undefined behaviour (index closure + UB-checked executions)",
    "C08": "char-wise and byte-wise automata agree on UTF-8 input",
    "C09": "serialisation round trip restores an equal, equally behaving automaton",
    "C10": "construction accepts exactly the valid collections and never panics",
    "C11": "num_free_blocks never changes search results",
    "C12": "byte-iterator searches equal slice searches and read their source lazily, once",
    "C13": "every search terminates; standard scans take at most 2n transitions",
    "C14": "construction is deterministic and order independent; searching is pure",
    "C15": "reported statistics are truthful",
    "C16": "daacfind prints exactly the matching lines and highlights the matched text",
}

MCQ = dict(module="MC_Search.tla", cfg="MC_Search_quick.cfg")
MCT = dict(module="MC_Search.tla", cfg="MC_Search_thorough.cfg", timeout=2400)


def std(qs=120, ts=2400, mcq=None, mct=None, rq=("Replay_quick.cfg",), rt=("Replay_thorough.cfg",)):
    return {
        "quick": dict(mc=[MCQ] + list(mcq or []), replay=list(rq), scenarios=qs),
        "thorough": dict(mc=[MCT] + list(mct or []), replay=list(rt), scenarios=ts),
    }


DAQ = dict(module="MC_DoubleArray.tla", cfg="MC_DoubleArray_quick.cfg")
DAT = dict(module="MC_DoubleArray.tla", cfg="MC_DoubleArray_thorough.cfg", timeout=3000)

PLAN = {p: std() for p in TITLES}
# the double-array layout (exact BuildHelper ring, evictions, sanitising, closure, order independence)
for _p in ("C01", "C07", "C10", "C11", "C14"):
    PLAN[_p] = std(mcq=[DAQ], mct=[DAT])
PLAN["C16"] = {
    "quick": dict(invocations=400, mc=[dict(module="MC_Daacfind.tla", cfg="MC_Daacfind_quick.cfg")]),
    "thorough": dict(invocations=4000, mc=[dict(module="MC_Daacfind.tla", cfg="MC_Daacfind_thorough.cfg", timeout=2400)]),
}

# ---------------------------------------------------------------------------------------------
# MANIFEST texts
# ---------------------------------------------------------------------------------------------
CLAIMED = ["C01", "C02", "C03", "C04", "C05", "C06", "C07", "C08", "C09", "C10", "C11", "C12",
           "C13", "C14", "C15", "C16"]
NOT_APPLICABLE = {}
_COMMON_NOTE = ("Trusted: TLC 1.8.0 and the CommunityModules Json/IOUtils; the Rust harness (harness/src) that "
                "records events faithfully; the cfg(daachorse_verif) accessors being read-only. Bounds: the model "
                "checking is exhaustive only within the small constants of the MC_*.cfg files; larger inputs are "
                "covered by validated traces, i.e. sampled.")
_GEN = ("TLC checks the property's declarative meaning (spec/Semantics.tla) as an invariant of the "
        "implementation-shaped specification on every reachable state of a small scope; every behaviour of that "
        "scope is replayed into the real crate (both variants, several label maps / widths, both entry points); "
        "and ndjson traces recorded from the real crate, including the complete transition table of each built "
        "automaton obtained through the implementation's own child/next-state functions, are validated by TLC "
        "against the same specification. ")
LEVEL_TEXT = {p: _GEN + TITLES[p] for p in TITLES}
LEVEL_TEXT["C16"] = ("TLC checks spec/Daacfind.tla (line filter through the modelled find iterator, colour-depth machine "
                     "over the modelled no-suffix iterator) against the declarative meaning (a line is printed iff a "
                     "pattern occurs in it; highlighted bytes = union of all occurrences) for all small pattern lists "
                     "and lines; recorded invocations of the real binary built from /repo (flags, -p/-f, stdin/files, "
                     "SGR-parsed stdout, exit status) are validated by TLC against spec/TraceCli.tla.")
LEVEL_NOTE = {p: _COMMON_NOTE for p in TITLES}
TECHNIQUE = {p: "TLA+ specification model-checked with TLC + trace validation of the implementation (code->spec) "
                "+ replay of TLC-generated behaviours (spec->code)" for p in TITLES}
DESIGN_REF = {p: "DESIGN.md section 6 (%s)" % p for p in TITLES}
