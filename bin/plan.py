"""Which TLC configs, replay configs and how many recorded scenarios decide each property."""

TITLES = {
    "C01": "overlapping search reports every occurrence exactly once, by end then longest first",
    "C02": "standard non-overlapping search: earliest-ending match, restart after it",
    "C03": "leftmost-longest search",
    "C04": "leftmost-first search",
    "C05": "no-suffix overlapping search: the longest match per end position",
    "C06": "every match carries the value registered for the matched pattern",
    "C07": "searching never performs undefined behaviour (index closure + UB-checked executions)",
    "C08": "char-wise and byte-wise automata agree on UTF-8 input",
    "C09": "serialisation round trip restores an equal, equally behaving automaton",
    "C10": "construction accepts exactly the valid collections and never panics",
    "C11": "num_free_blocks never changes search results",
    "C12": "byte-iterator searches equal slice searches and read their source lazily, once",
    "C13": "every search terminates; standard scans take at most 2n transitions",
    "C14": "construction is deterministic and order independent; searching is pure",
    "C15": "reported statistics are truthful",
    "C16": "daacfind prints exactly the matching lines and highlights the matched text",
}

MCQ = dict(module="MC_Search.tla", cfg="MC_Search_quick.cfg")
MCT = dict(module="MC_Search.tla", cfg="MC_Search_thorough.cfg", timeout=2400)


def std(qs=120, ts=2400, mcq=None, mct=None, rq=("Replay_quick.cfg",), rt=("Replay_thorough.cfg",)):
    return {
        "quick": dict(mc=[MCQ] + list(mcq or []), replay=list(rq), scenarios=qs),
        "thorough": dict(mc=[MCT] + list(mct or []), replay=list(rt), scenarios=ts),
    }


def M(mod, tier, **kw):
    d = dict(module="%s.tla" % mod, cfg="%s_%s.cfg" % (mod, tier))
    d.update(kw)
    return d


DAQ, DAT = M("MC_DoubleArray", "quick"), M("MC_DoubleArray", "thorough", timeout=3000)
WINQ, WINT = M("MC_Window", "quick"), M("MC_Window", "thorough", timeout=1800)
CWQ, CWT = M("MC_Charwise", "quick"), M("MC_Charwise", "thorough", timeout=3000)
U8Q, U8T = M("MC_Utf8", "quick"), M("MC_Utf8", "thorough", timeout=3000)
APIQ, APIT = M("MC_Api", "quick"), M("MC_Api", "thorough", timeout=3000)
AMORT = [dict(module="Amortized.tla", init="Init", inv="IndInv", length=0),
         dict(module="Amortized.tla", init="IndInit", inv="IndInv", length=1),
         dict(module="Amortized.tla", init="IndInit", inv="Bound", length=0)]
SIMQ = dict(module="MC_Api.tla", cfg="Replay_Api.cfg", simulate=True, take=1500, depth=20, timeout=60)
SIMT = dict(module="MC_Api.tla", cfg="Replay_Api.cfg", simulate=True, take=12000, depth=20, timeout=200)

SIMS = dict(module="MC_Search.tla", cfg="MC_Search_sim.cfg", simulate=4000, depth=8, workers=4, timeout=400)

PLAN = {p: std() for p in TITLES}
# L2: the double-array layout (exact BuildHelper ring, evictions, sanitising, closure, order independence)
# window form: all haystack lengths; char-wise: real UTF-8 against the byte-level meaning
PLAN["C01"] = std(mcq=[DAQ, WINQ], mct=[DAT, WINT, SIMS])
PLAN["C02"] = std(mcq=[WINQ], mct=[WINT, SIMS])
PLAN["C03"] = std(mcq=[CWQ], mct=[CWT, SIMS])
PLAN["C04"] = std(mcq=[CWQ], mct=[CWT, SIMS])
PLAN["C05"] = std(mcq=[WINQ], mct=[WINT, SIMS])
PLAN["C07"] = std(mcq=[DAQ, U8Q, CWQ], mct=[DAT, U8T, CWT])
PLAN["C07"]["thorough"]["miri"] = 48
PLAN["C07"]["quick"]["miri"] = 4
PLAN["C08"] = std(mcq=[CWQ, U8Q], mct=[CWT, U8T])
FMQ, FMT = M("MC_Format", "quick"), M("MC_Format", "thorough", timeout=1800)
PLAN["C09"] = std(mcq=[APIQ, FMQ], mct=[APIT, FMT], rq=("Replay_quick.cfg", SIMQ), rt=("Replay_thorough.cfg", SIMT))
PLAN["C10"] = std(mcq=[DAQ], mct=[DAT])
PLAN["C11"] = std(mcq=[DAQ], mct=[DAT])
PLAN["C12"] = std(mcq=[APIQ, CWQ], mct=[APIT, CWT], rq=("Replay_quick.cfg", SIMQ), rt=("Replay_thorough.cfg", SIMT))
PLAN["C13"] = std(mcq=[WINQ], mct=[WINT])
for _t in ("quick", "thorough"):
    PLAN["C13"][_t]["apalache"] = AMORT
PLAN["C14"] = std(mcq=[DAQ, APIQ], mct=[DAT, APIT], rq=("Replay_quick.cfg", SIMQ), rt=("Replay_thorough.cfg", SIMT))
PLAN["C16"] = {
    "quick": dict(invocations=400, mc=[dict(module="MC_Daacfind.tla", cfg="MC_Daacfind_quick.cfg")]),
    "thorough": dict(invocations=4000, mc=[dict(module="MC_Daacfind.tla", cfg="MC_Daacfind_thorough.cfg", timeout=2400)]),
}

# ---------------------------------------------------------------------------------------------
# MANIFEST texts
# ---------------------------------------------------------------------------------------------
CLAIMED = ["C01", "C02", "C03", "C04", "C05", "C06", "C07", "C08", "C09", "C10", "C11", "C12",
           "C13", "C14", "C15", "C16"]
NOT_APPLICABLE = {}
_COMMON_NOTE = ("Trusted: TLC 1.8.0 and the CommunityModules Json/IOUtils; the Rust harness (harness/src) that "
                "records events faithfully; the cfg(daachorse_verif) accessors being read-only. Bounds: the model "
                "checking is exhaustive only within the small constants of the MC_*.cfg files; larger inputs are "
                "covered by validated traces, i.e. sampled.")
_GEN = ("TLC checks the property's declarative meaning (spec/Semantics.tla) as an invariant of the "
        "implementation-shaped specification on every reachable state of a small scope; every behaviour of that "
        "scope is replayed into the real crate (both variants, several label maps / widths, both entry points); "
        "and ndjson traces recorded from the real crate, including the complete transition table of each built "
        "automaton obtained through the implementation's own child/next-state functions, are validated by TLC "
        "against the same specification. ")
LEVEL_TEXT = {p: _GEN + TITLES[p] for p in TITLES}
LEVEL_TEXT["C16"] = ("TLC checks spec/Daacfind.tla (line filter through the modelled find iterator, colour-depth machine "
                     "over the modelled no-suffix iterator) against the declarative meaning (a line is printed iff a "
                     "pattern occurs in it; highlighted bytes = union of all occurrences) for all small pattern lists "
                     "and lines; recorded invocations of the real binary built from /repo (flags, -p/-f, stdin/files, "
                     "SGR-parsed stdout, exit status) are validated by TLC against spec/TraceCli.tla.")
LEVEL_NOTE = {p: _COMMON_NOTE for p in TITLES}
TECHNIQUE = {p: "TLA+ specification model-checked with TLC + trace validation of the implementation (code->spec) "
                "+ replay of TLC-generated behaviours (spec->code)" for p in TITLES}
DESIGN_REF = {p: "DESIGN.md section 6 (%s)" % p for p in TITLES}
