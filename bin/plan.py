"""Which TLC configs, replay configs and how many recorded scenarios decide each property."""

TITLES = {
    "C01": "overlapping search reports every occurrence exactly once, by end then longest first",
    "C02": "standard non-overlapping search: earliest-ending match, restart after it",
    "C03": "leftmost-longest search",
    "C04": "leftmost-first search",
    "C05": "no-suffix overlapping search: the longest match per end position",
    "C06": "every match carries the value registered for the matched pattern",
    "C07": "searching never performs undefined behaviour (index closure + UB-checked executions)",
    "C08": "char-wise and byte-wise automata agree on UTF-8 input",
    "C09": "serialisation round trip restores an equal, equally behaving automaton",
    "C10": "construction accepts exactly the valid collections and never panics",
    "C11": "num_free_blocks never changes search results",
    "C12": "byte-iterator searches equal slice searches and read their source lazily, once",
    "C13": "every search terminates; standard scans take at most 2n transitions",
    "C14": "construction is deterministic and order independent; searching is pure",
    "C15": "reported statistics are truthful",
    "C16": "daacfind prints exactly the matching lines and highlights the matched text",
}

MCQ = dict(module="MC_Search.tla", cfg="MC_Search_quick.cfg")
MCT = dict(module="MC_Search.tla", cfg="MC_Search_thorough.cfg", timeout=2400)


def std(qs=120, ts=2400, mcq=None, mct=None, rq=("Replay_quick.cfg",), rt=("Replay_thorough.cfg",)):
    return {
        "quick": dict(mc=[MCQ] + list(mcq or []), replay=list(rq), scenarios=qs),
        "thorough": dict(mc=[MCT] + list(mct or []), replay=list(rt), scenarios=ts),
    }


def M(mod, tier, **kw):
    d = dict(module="%s.tla" % mod, cfg="%s_%s.cfg" % (mod, tier))
    d.update(kw)
    return d


DAQ, DAT = M("MC_DoubleArray", "quick"), M("MC_DoubleArray", "thorough", timeout=3000)
WINQ, WINT = M("MC_Window", "quick"), M("MC_Window", "thorough", timeout=1800)
CWQ, CWT = M("MC_Charwise", "quick"), M("MC_Charwise", "thorough", timeout=3000)
U8Q, U8T = M("MC_Utf8", "quick"), M("MC_Utf8", "thorough", timeout=3000)
APIQ, APIT = M("MC_Api", "quick"), M("MC_Api", "thorough", timeout=3000)
AMORT = [dict(module="Amortized.tla", init="Init", inv="IndInv", length=0),
         dict(module="Amortized.tla", init="IndInit", inv="IndInv", length=1),
         dict(module="Amortized.tla", init="IndInit", inv="Bound", length=0)]
SIMQ = dict(module="MC_Api.tla", cfg="Replay_Api.cfg", simulate=True, take=1500, num=30, depth=20, timeout=120)
SIMT = dict(module="MC_Api.tla", cfg="Replay_Api.cfg", simulate=True, take=12000, num=250, depth=20, timeout=400)

SIMS = dict(module="MC_Search.tla", cfg="MC_Search_sim.cfg", simulate=4000, depth=8, workers=4, timeout=400)

PLAN = {p: std() for p in TITLES}
# L2: the double-array layout (exact BuildHelper ring, evictions, sanitising, closure, order independence)
# window form: all haystack lengths; char-wise: real UTF-8 against the byte-level meaning
PLAN["C01"] = std(mcq=[DAQ, WINQ], mct=[DAT, WINT, SIMS])
PLAN["C02"] = std(mcq=[WINQ], mct=[WINT, SIMS])
PLAN["C03"] = std(mcq=[CWQ], mct=[CWT, SIMS])
PLAN["C04"] = std(mcq=[CWQ], mct=[CWT, SIMS])
PLAN["C05"] = std(mcq=[WINQ], mct=[WINT, SIMS])
PLAN["C07"] = std(mcq=[DAQ, U8Q, CWQ], mct=[DAT, U8T, CWT])
PLAN["C07"]["thorough"]["miri"] = 48
PLAN["C07"]["quick"]["miri"] = 2
PLAN["C08"] = std(mcq=[CWQ, U8Q], mct=[CWT, U8T])
FMQ, FMT = M("MC_Format", "quick"), M("MC_Format", "thorough", timeout=1800)
PLAN["C09"] = std(mcq=[APIQ, FMQ], mct=[APIT, FMT], rq=("Replay_quick.cfg", SIMQ), rt=("Replay_thorough.cfg", SIMT))
# build behaviours only, longer collections: empty entries and repeats in every position of every ordered
# collection of up to 4 (thorough: 5) entries
RBQ, RBT = "Replay_build_quick.cfg", "Replay_build_thorough.cfg"
PLAN["C10"] = std(mcq=[DAQ], mct=[DAT], rq=("Replay_quick.cfg", RBQ), rt=("Replay_thorough.cfg", RBT))
PLAN["C11"] = std(mcq=[DAQ], mct=[DAT])
# state counts of every ordered collection of up to 4 (5) entries against the real builder
PLAN["C15"] = std(rq=("Replay_quick.cfg", RBQ), rt=("Replay_thorough.cfg", RBT))
PLAN["C12"] = std(mcq=[APIQ, CWQ], mct=[APIT, CWT], rq=("Replay_quick.cfg", SIMQ), rt=("Replay_thorough.cfg", SIMT))
PLAN["C13"] = std(mcq=[WINQ], mct=[WINT])
for _t in ("quick", "thorough"):
    PLAN["C13"][_t]["apalache"] = AMORT
PLAN["C14"] = std(mcq=[DAQ, APIQ], mct=[DAT, APIT], rq=("Replay_quick.cfg", SIMQ), rt=("Replay_thorough.cfg", SIMT))
PLAN["C16"] = {
    "quick": dict(invocations=400, mc=[dict(module="MC_Daacfind.tla", cfg="MC_Daacfind_quick.cfg")]),
    "thorough": dict(invocations=4000, mc=[dict(module="MC_Daacfind.tla", cfg="MC_Daacfind_thorough.cfg", timeout=2400)]),
}

# ---------------------------------------------------------------------------------------------
# MANIFEST texts
# ---------------------------------------------------------------------------------------------
CLAIMED = ["C01", "C02", "C03", "C04", "C05", "C06", "C07", "C08", "C09", "C10", "C11", "C12",
           "C13", "C14", "C15", "C16"]
NOT_APPLICABLE = {}
_COMMON_NOTE = ("Trusted: TLC 1.8.0 and the CommunityModules Json/IOUtils; the Rust harness (harness/src) that "
                "records events faithfully; the cfg(daachorse_verif) accessors being read-only. Bounds: the model "
                "checking is exhaustive only within the small constants of the MC_*.cfg files; larger inputs are "
                "covered by validated traces, i.e. sampled.")
_GEN = ("TLC checks the property's declarative meaning (spec/Semantics.tla) as an invariant of the "
        "implementation-shaped specification on every reachable state of a small scope; every behaviour of that "
        "scope is replayed into the real crate (both variants, several label maps / widths, both entry points); "
        "and ndjson traces recorded from the real crate, including the complete transition table of each built "
        "automaton obtained through the implementation's own child/next-state functions, are validated by TLC "
        "against the same specification. ")
LEVEL_NOTE = {p: _COMMON_NOTE for p in TITLES}
_SPECIFIC = {
    "C01": "Decided by: P-ov (MC_Search: all pattern sequences <= 2-3 over {0,1}, all haystacks <= 5-6), the window form (MC_Window: haystacks of every length), the double-array layout with 4-slot blocks and evictions (MC_DoubleArray: Encodes, Sim); replay of every behaviour of that scope; table validation (trie edges for all 256 bytes / all codes, transition function, fail links, output chains) of every recorded automaton, which makes the claim hold for all haystacks of those automata.",
    "C02": "Decided by: P-std (MC_Search), EmitOK in the window form (every haystack length); replay; recorded find_iter / find_iter_from_iter runs compared with the model and the declarative meaning; table validation.",
    "C03": "Decided by: P-ll and T-fail-lm (MC_Search over all ordered pattern sequences), MC_Charwise (char-wise bookkeeping pos += skips over real UTF-8); replay on both variants incl. multi-byte label maps; table validation against the specification's leftmost automaton.",
    "C04": "Decided by: P-lf over all ordered sequences (every registration order of the scope), shadowing in Nfa!AddPattern; replay; recorded leftmost-first runs incl. the `shadow` family; table validation.",
    "C05": "Decided by: P-ns (MC_Search), window form (output chain head = longest suffix pattern); replay; recorded no-suffix runs (slice, iterator, owned entries); table validation.",
    "C06": "Decided by: every reported match is a true occurrence carrying the registered value (declarative conjunct, independent of the search method), for 16 value types incl. user-defined ones, 0/MIN/MAX/high-bit/repeated values, positions beyond u8/u16 range (66 000 patterns), patterns longer than 65 535 bytes, before and after a round trip; output tables compared with the specification.",
    "C07": "Decided by: the index-closure invariant (MC_DoubleArray Closure/NoOob for all nodes x all codes; per recorded table: no Oob answer of the guarded child lookup for any reachable state x any label of the block, len multiple of the block length, bases/fails/output positions in range; also on restored tables), the transcribed UTF-8 decoder (MC_Utf8), and executions of every scenario with debug-assertions (std's unsafe-precondition checks abort => crash event) plus Miri for a subset. Not a proof about machine code.",
    "C08": "Decided relationally: the char-wise results equal those of the byte-wise twin built from the UTF-8 bytes of the same patterns (same scenario), offsets are character boundaries, both tables are exact or both are not; MC_Charwise shows the agreement at specification level for real 1-4 byte encodings incl. unmapped characters; replay compares both variants in label space.",
    "C09": "Decided by: round-trip events (equal, remainder handed back untouched, re-serialisation identical), restored automaton = original (normalised table, search results) for all kinds, 16 value types, trailing bytes; simulated API histories with round trips at arbitrary points; Format.tla round trip at design level.",
    "C10": "Decided by: T-err over all sequences (incl. empty and repeated entries, all kinds) of the scope, NoPanic/RingInv of the exact BuildHelper model; replay of every invalid sequence on both variants x both entry points x builder/type API; recorded collections with defects at random positions, shadowed repeats, shared tails, long mixed-width patterns, index-conversion limits; outcome must be in the documented set and never a panic.",
    "C11": "Decided relationally: for the same input, every num_free_blocks value gives the same normalised table (incl. phantom edges) and the same search results as the default; closure and state count hold for each; MC_DoubleArray explores nfb 1-3 with 4-slot blocks exhaustively.",
    "C12": "Decided by: P-lazy (MC_Search, MC_Charwise, MC_Api), interleavings of next() calls (MC_Api exhaustive, simulated histories replayed), counting sources in the real crate: bytes pulled = end of the returned match at every return, = length at None; iterator entry = slice entry.",
    "C13": "Decided by: Apalache discharges the inductive invariant of Amortized (unbounded n): gotos + hops <= 2n; TLC ties every step of Search to it (PHops, HopsPaid in the window form); per recorded table the ranking (fail links strictly shallower or DEAD, output parents strictly smaller, goto edges form a tree); probe/hop counters of the real transition loops <= 2n on every recorded standard search; hop limit and result cap turn non-termination into events.",
    "C14": "Decided by: OrderIndependent (MC_DoubleArray: arrays equal for all permutations), Interleaved (MC_Api); recorded rebuilds and permutations must be == and byte-identical (standard, leftmost-longest), clones, purity (automaton unchanged by searches), 4-8 threads on a shared automaton compared with the single-threaded reference. Thread schedules are sampled, not enumerated.",
    "C15": "Decided by: T-trie (MC_Search): nodes = distinct non-empty prefixes of reportable patterns; recorded num_states = that count = number of slots reachable from the root in the dumped table; num_elements >= num_states; heap_bytes >= 12 * num_states.",
}
LEVEL_TEXT = {p: _GEN + _SPECIFIC.get(p, TITLES[p]) for p in TITLES}
LEVEL_NOTE["C07"] = _COMMON_NOTE + " Memory is not observed by TLA+: out-of-range accesses are detected through the closure invariant, std's debug checks and Miri."
LEVEL_NOTE["C14"] = _COMMON_NOTE + " Thread interleavings in the real crate are sampled."
LEVEL_NOTE["C16"] = _COMMON_NOTE + " The binary is observed through stdout, exit status and stderr only."
LEVEL_TEXT["C16"] = ("TLC checks spec/Daacfind.tla (line filter through the modelled find iterator, colour-depth machine "
                     "over the modelled no-suffix iterator) against the declarative meaning (a line is printed iff a "
                     "pattern occurs in it; highlighted bytes = union of all occurrences) for all small pattern lists "
                     "and lines; recorded invocations of the real binary built from /repo (flags, -p/-f, stdin/files, "
                     "SGR-parsed stdout, exit status) are validated by TLC against spec/TraceCli.tla.")
TECHNIQUE = {p: "TLA+ specification model-checked with TLC + trace validation of the implementation (code->spec) "
                "+ replay of TLC-generated behaviours (spec->code)" for p in TITLES}
DESIGN_REF = {p: "DESIGN.md section 6 (%s)" % p for p in TITLES}
