//! code -> spec: drives the real crate and records one ndjson event per public call.
use std::io::Write;
use std::panic::{catch_unwind, AssertUnwindSafe};
use std::rc::Rc;

use serde_json::{json, Value};

use crate::gen::*;
use crate::pma::*;
use crate::rng::Rng;
use crate::val::{Val, ALL_TYPES};
use crate::with_val;

pub struct Tracer {
    out: Box<dyn Write>,
    next_handle: u32,
    next_iter: u32,
    pub events: u64,
}

impl Tracer {
    pub fn new(out: Box<dyn Write>) -> Self {
        Tracer { out, next_handle: 0, next_iter: 0, events: 0 }
    }
    pub fn emit(&mut self, v: Value) {
        writeln!(self.out, "{}", v).unwrap();
        self.out.flush().unwrap();
        self.events += 1;
    }
    pub fn handle(&mut self) -> u32 {
        self.next_handle += 1;
        self.next_handle
    }
    pub fn iter_id(&mut self) -> u32 {
        self.next_iter += 1;
        self.next_iter
    }
    pub fn reset(&mut self, sc: u64, fam: &str, seed: u64) {
        self.next_handle = 0;
        self.next_iter = 0;
        self.emit(json!({"ev": "reset", "sc": sc, "fam": fam, "seed": seed.to_string()}));
    }
}

fn pats_json(pats: &[Pat]) -> Value {
    Value::Array(pats.iter().map(|p| json!(p)).collect())
}

/// build event; returns the handle and the automaton when the build succeeded
pub fn ev_build<V: Val>(t: &mut Tracer, spec: &BuildSpec, vals: &[V]) -> (u32, Option<Pma<V>>) {
    let h = t.handle();
    let (outcome, pma) = build::<V>(spec, vals);
    let vals_s: Vec<String> = if spec.entry == "new" {
        vec![]
    } else {
        vals.iter().map(|v| v.show()).collect()
    };
    let (ns, ne, hb): (i64, i64, i64) = match &pma {
        Some(p) => (
            p.num_states() as i64,
            match p {
                Pma::B(_) => -1,
                Pma::C(_) => p.num_elements() as i64,
            },
            p.heap_bytes() as i64,
        ),
        None => (-1, -1, -1),
    };
    t.emit(json!({
        "ev": "build", "h": h, "var": spec.var.s(), "kind": spec.kind.s(), "entry": spec.entry,
        "api": if spec.via_builder { "builder" } else { "type" },
        "nfb": spec.nfb, "vt": V::NAME, "maxidx": V::max_index(),
        "pats": pats_json(&spec.pats), "vals": vals_s, "outcome": outcome,
        "num_states": ns, "num_elements": ne, "heap_bytes": hb,
    }));
    (h, pma)
}

pub fn ev_table<V: Val>(t: &mut Tracer, h: u32, pma: &Pma<V>, with_nexts: bool, extra: &[u32]) {
    let mut v = pma.table(with_nexts, extra);
    v["ev"] = json!("table");
    v["h"] = json!(h);
    t.emit(v);
}

/// complete run of one iterator
pub fn ev_search<V: Val>(
    t: &mut Tracer,
    h: u32,
    pma: &Pma<V>,
    method: &str,
    entry: &str,
    hay: &Rc<Vec<u8>>,
    thread: u32,
) {
    // more results than occurrences can exist means an output-chain cycle: cap the run
    let cap = (hay.len() + 1) * 64 + 16;
    let (ms, pulled, probes, hops, capped) = pma.search_all(method, entry, hay, cap);
    t.emit(json!({
        "ev": "search", "h": h, "method": method, "entry": entry, "thread": thread,
        "hay": hay.as_slice(), "res": ms.iter().map(MatchRec::json).collect::<Vec<_>>(),
        "pulled": pulled, "probes": probes, "hops": hops, "capped": capped,
    }));
}

/// a search method called on an automaton of the other match kind: documented to panic at once
pub fn ev_mismatch<V: Val>(t: &mut Tracer, h: u32, pma: &Pma<V>, method: &str, entry: &str, hay: &Rc<Vec<u8>>) {
    let r = catch_unwind(AssertUnwindSafe(|| pma.search_all(method, entry, hay, (hay.len() + 1) * 64 + 16)));
    let (outcome, hoplimit, capped) = match r {
        Ok((_, _, _, _, capped)) => ("returned".to_string(), false, capped),
        Err(e) => {
            let m = panic_msg(e);
            let hl = m.contains(daachorse::verif_hooks::HOP_LIMIT_MESSAGE);
            (format!("panic: {m}"), hl, false)
        }
    };
    t.emit(json!({"ev": "mismatch", "h": h, "method": method, "entry": entry, "hay": hay.as_slice(),
                  "outcome": outcome, "hoplimit": hoplimit, "capped": capped}));
}

/// hands a live iterator to an internal-iteration method of the Iterator trait
pub fn ev_drain<V: Val>(t: &mut Tracer, rng: &mut Rng, id: u32, it: crate::pma::StepIter<'_, V>, avail: Option<usize>) {
    let mode = *rng.pick(&["fold", "for_each", "count", "last"]);
    let (ms, n, last, pulled) = it.drain_pulled(mode);
    let res: Vec<Value> = ms.iter().map(MatchRec::json).collect();
    let last: Vec<Value> = last.iter().map(MatchRec::json).collect();
    let mut ev = json!({"ev": "drain", "it": id, "mode": mode, "res": res, "n": n, "last": last, "pulled": pulled});
    if let Some(a) = avail {
        ev["avail"] = json!(a);
    }
    t.emit(ev);
}

/// some results one by one, the rest through fold / count / last of the Iterator trait
pub fn ev_search_mixed<V: Val>(t: &mut Tracer, rng: &mut Rng, h: u32, pma: &Pma<V>, method: &str, entry: &str, hay: &Rc<Vec<u8>>) {
    let j = rng.below(4);
    let mode = *rng.pick(&["fold", "fold", "count", "last"]);
    let (ms, rest_n, last) = pma.search_mixed(method, entry, hay, j, mode);
    t.emit(json!({
        "ev": "consume", "h": h, "method": method, "entry": entry, "hay": hay.as_slice(), "first": j, "mode": mode,
        "res": ms.iter().map(MatchRec::json).collect::<Vec<_>>(), "rest_n": rest_n,
        "last": last.iter().map(MatchRec::json).collect::<Vec<_>>(),
    }));
}

pub fn ev_roundtrip<V: Val>(t: &mut Tracer, h: u32, pma: &Pma<V>, trail: &[u8]) -> (u32, Pma<V>) {
    let h2 = t.handle();
    let bytes = pma.serialize();
    let mut src = bytes.clone();
    src.extend_from_slice(trail);
    let (p2, rest) = Pma::<V>::deserialize(pma.var(), &src);
    let eq = pma.same(&p2);
    let rest_ok = rest == trail;
    let reser = p2.serialize();
    let ne = |p: &Pma<V>| -> i64 {
        match p {
            Pma::B(_) => -1,
            Pma::C(_) => p.num_elements() as i64,
        }
    };
    t.emit(json!({
        "ev": "roundtrip", "h": h, "h2": h2, "trail": trail, "eq": eq, "rest_ok": rest_ok,
        "stats": [pma.num_states(), p2.num_states(), pma.heap_bytes(), p2.heap_bytes()],
        "elements": [ne(pma), ne(&p2)],
        "restlen": rest.len(), "reser_ok": reser == bytes, "len": bytes.len(),
        "src_untouched": src[..bytes.len()] == bytes[..] && src[bytes.len()..] == *trail,
    }));
    (h2, p2)
}

/// two handles built from related inputs: are the automata equal / byte-identical?
pub fn ev_same<V: Val>(t: &mut Tracer, h1: u32, a: &Pma<V>, h2: u32, b: &Pma<V>, why: &str) {
    t.emit(json!({
        "ev": "same", "h1": h1, "h2": h2, "why": why,
        "eq": a.same(b), "bytes_eq": a.serialize() == b.serialize(),
    }));
}

pub fn ev_decode(t: &mut Tracer, bytes: &[u8]) {
    let it = unsafe { daachorse::charwise::iter::CharWithEndOffsetIterator::new(bytes.iter().copied()) };
    let res: Vec<Value> = it.map(|(e, c)| json!([e, c as u32])).collect();
    t.emit(json!({"ev": "decode", "bytes": bytes, "res": res}));
}

// ---------------------------------------------------------------------------------------------
// scenario families
// ---------------------------------------------------------------------------------------------

pub struct Ctx<'a> {
    pub prop: &'a str,
    pub thorough: bool,
}

fn methods_for(prop: &str, kind: Kind) -> Vec<&'static str> {
    let all = kind.methods().to_vec();
    let want: Option<&str> = match prop {
        "C01" => Some("ov"),
        "C02" => Some("find"),
        "C03" | "C04" => Some("lm"),
        "C05" => Some("nosuf"),
        _ => None,
    };
    match want {
        Some(m) => all.into_iter().filter(|x| *x == m).collect(),
        None => all,
    }
}

fn kinds_for(prop: &str) -> Vec<Kind> {
    match prop {
        "C01" | "C02" | "C05" | "C12" => vec![Kind::Std],
        "C03" => vec![Kind::LL],
        "C04" => vec![Kind::LF],
        _ => vec![Kind::Std, Kind::LL, Kind::LF],
    }
}

fn mk_vals<V: Val>(rng: &mut Rng, n: usize, entry: &str) -> Vec<V> {
    if entry == "new" {
        vec![]
    } else {
        (0..n).map(|_| V::special(rng.next_u64())).collect()
    }
}

/// build + table + searches of one automaton (slice entry first: it is the reference run for the
/// iterator entry point); returns the handle and the automaton
fn run_block<V: Val>(
    t: &mut Tracer,
    rng: &mut Rng,
    cx: &Ctx,
    spec: &BuildSpec,
    vals: &[V],
    hays: &[Rc<Vec<u8>>],
    extra: &[u32],
    with_nexts: bool,
) -> Option<(u32, Pma<V>)> {
    let (h, pma) = ev_build(t, spec, vals);
    let pma = pma?;
    ev_table(t, h, &pma, with_nexts, extra);
    let methods = methods_for(cx.prop, spec.kind);
    for hay in hays {
        for m in &methods {
            ev_search(t, h, &pma, m, "slice", hay, 0);
            if *m != "lm" && (cx.prop == "C12" || rng.chance(1, 2)) {
                ev_search(t, h, &pma, m, "iter", hay, 0);
            }
            // the haystack handed over by value in an owning container
            if rng.chance(1, 2) {
                ev_search(t, h, &pma, m, "owned", hay, 0);
            }
            // part of the results through the internal-iteration methods of the Iterator trait
            if rng.chance(1, 3) {
                let entry = if *m != "lm" && rng.chance(1, 2) { "iter" } else { "slice" };
                ev_search_mixed(t, rng, h, &pma, m, entry, hay);
            }
        }
    }
    // restored automata: in scope of C07 and C09 by their statements; a restored automaton must
    // answer like the original, so termination / linearity (C13) is checked on it as well
    if matches!(cx.prop, "C07" | "C09" | "C13") && spec.pats.len() <= 3000 {
        let ntrail = rng.range(0, 4);
        let trail = gen_bytes(rng, ntrail);
        let (h2, p2) = ev_roundtrip(t, h, &pma, &trail);
        ev_table(t, h2, &p2, false, &[]);
        for hay in hays.iter().take(2) {
            for m in &methods {
                ev_search(t, h2, &p2, m, "slice", hay, 0);
            }
        }
        // a second round trip, of the restored automaton
        if cx.prop == "C09" {
            let (h3, p3) = ev_roundtrip(t, h2, &p2, &[0xff]);
            ev_table(t, h3, &p3, false, &[]);
            if let Some(hay) = hays.first() {
                for m in &methods {
                    ev_search(t, h3, &p3, m, "slice", hay, 0);
                }
            }
        }
    }
    Some((h, pma))
}

/// small random automaton: build, table, searches (slice and iterator entry), optional round trip.
/// For the relational properties the reference automaton comes first: the byte-wise twin built
/// from the UTF-8 bytes of the same patterns (C08), the default num_free_blocks (C11).
fn small_typed<V: Val>(t: &mut Tracer, rng: &mut Rng, cx: &Ctx, var: Var, kind: Kind) {
    let alpha = pick_alphabet(rng, var);
    let np = rng.range(1, 6);
    let pats = gen_patterns(rng, &alpha.pat, np, 4);
    let entry = if rng.chance(1, 2) { "new" } else { "with_values" };
    let via_builder = kind != Kind::Std || cx.prop == "C11" || rng.chance(3, 4);
    let nfb = if cx.prop == "C11" {
        *rng.pick(&[1u32, 1, 2, 3, 5, 64, 65, 255, 256, 1000])
    } else if via_builder {
        *rng.pick(&[1u32, 1, 2, 3, 16, 64])
    } else {
        16
    };
    let spec = BuildSpec { var, kind, entry, via_builder, nfb, pats };
    let vals: Vec<V> = mk_vals(rng, spec.pats.len(), entry);
    let nh = rng.range(3, 6);
    let mut hays: Vec<Rc<Vec<u8>>> = (0..nh)
        .map(|_| Rc::new(gen_haystack(rng, var, &alpha, 14, &spec.pats)))
        .collect();
    // special shapes: a pattern as the whole haystack, only characters unknown to the automaton, empty
    if rng.chance(1, 2) {
        let p = spec.pats[rng.below(spec.pats.len())].clone();
        hays.push(Rc::new(pat_bytes(var, &p)));
    }
    if rng.chance(1, 3) && !alpha.extra.is_empty() {
        let only_unknown = Alpha { pat: alpha.extra.clone(), extra: vec![] };
        hays.push(Rc::new(gen_haystack(rng, var, &only_unknown, 6, &[])));
    }
    if rng.chance(1, 4) {
        hays.push(Rc::new(vec![]));
    }
    let extra: Vec<u32> = alpha.extra.iter().copied().take(5).collect();
    if cx.prop == "C08" && var == Var::C {
        let twin = BuildSpec {
            var: Var::B,
            pats: spec.pats.iter().map(|p| pat_bytes(Var::C, p).iter().map(|&b| u32::from(b)).collect()).collect(),
            ..spec.clone()
        };
        run_block(t, rng, cx, &twin, &vals, &hays, &[], false);
    }
    if cx.prop == "C11" {
        let twin = BuildSpec { nfb: 16, ..spec.clone() };
        run_block(t, rng, cx, &twin, &vals, &hays, &[], false);
    }
    let Some((h, pma)) = run_block(t, rng, cx, &spec, &vals, &hays, &extra, true) else { return };
    let methods = methods_for(cx.prop, kind);
    // an automaton of DIFFERENT patterns (other characters, other sizes) overwritten in place by
    // `clone_from`: it must then be the same automaton as its source
    if rng.chance(1, 3) {
        let alpha2 = pick_alphabet(rng, var);
        let np2 = rng.range(1, 9);
        let pats2 = gen_patterns(rng, &alpha2.pat, np2, 5);
        let spec2 = BuildSpec { pats: pats2, entry: "new", ..spec.clone() };
        let (hv, victim) = ev_build::<V>(t, &spec2, &[]);
        if let Some(mut victim) = victim {
            let _ = hv;
            victim.clone_from_pma(&pma);
            let hc = t.handle();
            t.emit(json!({"ev": "clone", "h": h, "h2": hc, "how": "clone_from"}));
            ev_same(t, h, &pma, hc, &victim, "clone");
            ev_table(t, hc, &victim, false, &[]);
            for hay in hays.iter().take(3) {
                for m in &methods {
                    ev_search(t, hc, &victim, m, "slice", hay, 0);
                }
            }
            if matches!(cx.prop, "C09" | "C15") {
                let (hr, pr) = ev_roundtrip(t, hc, &victim, &[3]);
                ev_table(t, hr, &pr, false, &[]);
            }
        }
    }
    if cx.prop == "C13" {
        // every search call returns: also the calls the documentation says panic at once
        let wrong: &[&str] = if kind == Kind::Std { &["lm"] } else { &["ov", "find", "nosuf"] };
        for m in wrong {
            for entry in ["slice", "iter"] {
                if *m == "lm" && entry == "iter" {
                    continue;
                }
                for hay in hays.iter().take(2) {
                    ev_mismatch(t, h, &pma, m, entry, hay);
                }
            }
        }
    }
    if cx.prop == "C06" || (!matches!(cx.prop, "C07" | "C09" | "C13") && rng.chance(1, 4)) {
        let ntrail = rng.range(0, 5);
        let trail = gen_bytes(rng, ntrail);
        let (h2, p2) = ev_roundtrip(t, h, &pma, &trail);
        ev_table(t, h2, &p2, false, &[]);
        for hay in hays.iter().take(3) {
            for m in &methods {
                ev_search(t, h2, &p2, m, "slice", hay, 0);
            }
        }
    }
}

fn fam_small(t: &mut Tracer, rng: &mut Rng, cx: &Ctx) {
    let var = match cx.prop {
        "C08" => Var::C,
        _ => {
            if rng.chance(1, 2) {
                Var::B
            } else {
                Var::C
            }
        }
    };
    let kind = *rng.pick(&kinds_for(cx.prop));
    let vt: &str = match cx.prop {
        "C06" | "C09" | "C10" => *rng.pick(ALL_TYPES),
        // (Empty is what the bundled CLI uses)
        _ => *rng.pick(&["u32", "u32", "u64", "usize", "i16", "u8", "Empty", "Empty"]),
    };
    with_val!(vt, small_typed(t, rng, cx, var, kind));
}

/// dictionary spanning many double-array blocks, small num_free_blocks => evictions
fn dict_typed<V: Val>(t: &mut Tracer, rng: &mut Rng, cx: &Ctx, var: Var, kind: Kind, np: usize, nfb: u32) {
    let alpha = dict_alphabet(rng, var);
    let pats = gen_patterns(rng, &alpha.pat, np, 7);
    let entry = if rng.chance(1, 2) { "new" } else { "with_values" };
    let spec = BuildSpec { var, kind, entry, via_builder: true, nfb, pats };
    let vals: Vec<V> = mk_vals(rng, spec.pats.len(), entry);
    let hays: Vec<Rc<Vec<u8>>> =
        (0..3).map(|_| Rc::new(gen_haystack(rng, var, &alpha, 120, &spec.pats))).collect();
    if cx.prop == "C08" && var == Var::C {
        let twin = BuildSpec {
            var: Var::B,
            pats: spec.pats.iter().map(|p| pat_bytes(Var::C, p).iter().map(|&b| u32::from(b)).collect()).collect(),
            ..spec.clone()
        };
        run_block(t, rng, cx, &twin, &vals, &hays, &[], false);
    }
    let _ = run_block(t, rng, cx, &spec, &vals, &hays, &[], false);
}

fn fam_dict(t: &mut Tracer, rng: &mut Rng, cx: &Ctx) {
    let var = if cx.prop == "C08" || rng.chance(1, 2) { Var::C } else { Var::B };
    let kind = *rng.pick(&kinds_for(cx.prop));
    let huge = cx.thorough && rng.chance(1, 12);
    let np = if huge { rng.range(1600, 2200) } else if cx.thorough { rng.range(200, 600) } else { rng.range(80, 220) };
    // huge: more than 16 blocks, so that blocks are closed under the default num_free_blocks
    let nfb = if huge { 16 } else { *rng.pick(&[1u32, 1, 2, 3, 5, 6, 7, 16, 16]) };
    let var = if huge { Var::B } else { var };
    dict_typed::<u32>(t, rng, cx, var, kind, np, nfb);
}

/// C11: the same dictionary with several num_free_blocks values, including the default
fn fam_nfb(t: &mut Tracer, rng: &mut Rng, cx: &Ctx) {
    let var = if rng.chance(1, 2) { Var::C } else { Var::B };
    let kind = *rng.pick(&kinds_for(cx.prop));
    let alpha = dict_alphabet(rng, var);
    let np = if cx.thorough { rng.range(150, 400) } else { rng.range(60, 160) };
    let pats = gen_patterns(rng, &alpha.pat, np, 7);
    let hays: Vec<Rc<Vec<u8>>> =
        (0..2).map(|_| Rc::new(gen_haystack(rng, var, &alpha, 100, &pats))).collect();
    let mut nfbs: Vec<u32> = vec![16, 1, 2];
    let extra = if cx.thorough { 6 } else { 2 };
    for _ in 0..extra {
        // small non-powers of two are as likely as anything else
        nfbs.push(*rng.pick(&[3u32, 5, 6, 7, 9, 10, 12, 24, 48, 63, 64]));
    }
    for nfb in nfbs {
        let spec = BuildSpec { var, kind, entry: "new", via_builder: true, nfb, pats: pats.clone() };
        let (h, pma) = ev_build::<u32>(t, &spec, &[]);
        let Some(pma) = pma else { continue };
        ev_table(t, h, &pma, false, &[]);
        for hay in &hays {
            for m in kind.methods() {
                ev_search(t, h, &pma, m, "slice", hay, 0);
            }
        }
    }
}

/// High fan-out states: a few prefixes each followed by most of the alphabet.  Such a state does
/// not fit into the vacant slots of the active blocks and opens a block of its own (the fallback
/// BASE = array length); with a small num_free_blocks blocks are closed while their neighbours
/// are still sparse.
fn fam_wide(t: &mut Tracer, rng: &mut Rng, cx: &Ctx) {
    let var = if cx.prop == "C08" || rng.chance(1, 4) { Var::C } else { Var::B };
    let nprefix = if cx.thorough { rng.range(4, 14) } else { rng.range(3, 4) };
    let fan = if cx.thorough { rng.range(150, 255) } else { rng.range(130, 180) };
    let base: u32 = if var == Var::C { 0x4e00 } else { 0 };
    let universe: u32 = if var == Var::C { 300 } else { 256 };
    let skip_zero = rng.chance(2, 3);
    let mut kids: Vec<u32> = (0..universe).filter(|&x| !(skip_zero && x == 0)).collect();
    rng.shuffle(&mut kids);
    kids.truncate(fan.min(kids.len()));
    let mut prefixes: Vec<u32> = vec![];
    while prefixes.len() < nprefix {
        let p = rng.below(universe as usize) as u32;
        if !prefixes.contains(&p) {
            prefixes.push(p);
        }
    }
    let mut pats: Vec<Pat> = vec![];
    if rng.chance(if matches!(cx.prop, "C03" | "C04") { 1 } else { 1 }, if matches!(cx.prop, "C03" | "C04") { 2 } else { 3 }) {
        // a wide state DEEP in the trie: a stem of 3-5 labels over a tiny pool (so that its proper suffixes are
        // prefixes or whole patterns themselves: fail chains of several hops, some ending in a pattern end) with
        // 12+ children, as dictionaries with one-letter words and long common stems have
        let pool: Vec<u32> = {
            let mut p: Vec<u32> = (0..universe).collect();
            rng.shuffle(&mut p);
            p.truncate(rng.range(2, 4));
            p
        };
        let n = rng.range(3, 5);
        let w: Pat = (0..n).map(|_| base + *rng.pick(&pool)).collect();
        let nk = rng.range(12, 40);
        let mut ks: Vec<u32> = (0..universe).collect();
        rng.shuffle(&mut ks);
        ks.truncate(nk);
        for &x in &ks {
            let mut p = w.clone();
            p.push(base + x);
            for _ in 0..rng.below(3) {
                p.push(base + *rng.pick(&pool));
            }
            pats.push(p);
        }
        // half of the time for sure: a longer proper suffix that is only a prefix of some pattern, and a shorter
        // one that is a whole pattern (the fail chain of the stem reaches a pattern end after two hops or more)
        let forced = if rng.chance(1, 2) {
            let i1 = rng.range(1, n - 2);
            let i2 = rng.range(i1 + 1, n - 1);
            Some((i1, i2))
        } else {
            None
        };
        for i in 1..n {
            let choice = match forced {
                Some((i1, _)) if i == i1 => 1,
                Some((_, i2)) if i == i2 => 0,
                _ => rng.below(3),
            };
            match choice {
                0 => pats.push(w[i..].to_vec()),
                1 => {
                    let mut p = w[i..].to_vec();
                    for _ in 0..rng.range(1, 2) {
                        p.push(base + *rng.pick(&pool));
                    }
                    pats.push(p);
                }
                _ => {}
            }
        }
        for _ in 0..rng.range(0, 3) {
            pats.push(vec![base + *rng.pick(&ks)]);
        }
        let mut seen: Vec<Pat> = vec![];
        pats.retain(|p| {
            if seen.contains(p) {
                false
            } else {
                seen.push(p.clone());
                true
            }
        });
        rng.shuffle(&mut pats);
        let kind = *rng.pick(&kinds_for(cx.prop));
        let alpha = Alpha {
            pat: pool.iter().map(|&p| base + p).chain(ks.iter().take(5).map(|&x| base + x)).collect(),
            extra: vec![base + universe + 1],
        };
        let hays: Vec<Rc<Vec<u8>>> = (0..3).map(|_| Rc::new(gen_haystack(rng, var, &alpha, 30, &pats))).collect();
        let nfb = *rng.pick(&[1u32, 2, 3, 16]);
        let spec = BuildSpec { var, kind, entry: "new", via_builder: true, nfb, pats };
        run_block::<u32>(t, rng, cx, &spec, &[], &hays, &[], false);
        return;
    }
    if rng.chance(1, 2) {
        pats.push(vec![base]); // the single label 0x00 / first character
    }
    if rng.chance(if var == Var::B { 2 } else { 1 }, if var == Var::B { 3 } else { 2 }) {
        // a wide ROOT: one-label patterns for almost the whole alphabet fill block 0 completely
        let nroot = if var == Var::B { rng.range(230, 254) } else { rng.range(200, 290) };
        let mut all: Vec<u32> = (0..universe).collect();
        rng.shuffle(&mut all);
        let (nroot, all) = if var == Var::B && rng.chance(1, 3) {
            // all byte values except a pair {2m, 2m+1}: the root's children then fill block 0 to its
            // very last vacant slot (BASE = 2m or 2m+1)
            let m = rng.below(128) as u32;
            (254, (0..256u32).filter(|&x| x != 2 * m && x != 2 * m + 1).collect::<Vec<u32>>())
        } else if var == Var::B && rng.chance(1, 2) {
            // at least one of every pair {2m, 2m+1} (all 256 byte values now and then): no BASE in
            // block 0 is free for the root's children, they are placed in a later block
            let both = rng.chance(1, 3);
            let f: Vec<u32> = (0..128u32)
                .flat_map(|m| match if both { 2 } else { rng.below(3) } {
                    0 => vec![2 * m],
                    1 => vec![2 * m + 1],
                    _ => vec![2 * m, 2 * m + 1],
                })
                .collect();
            (f.len(), f)
        } else {
            (nroot, all)
        };
        for &x in all.iter().take(nroot) {
            let p = vec![base + x];
            if !pats.contains(&p) {
                pats.push(p);
            }
        }
        prefixes.truncate(2);
        kids.truncate(rng.range(1, 40));
    }
    for &p in &prefixes {
        for &x in &kids {
            pats.push(vec![base + p, base + x]);
        }
    }
    // a few deeper patterns so that fail links and output chains are not trivial
    for _ in 0..rng.range(0, 6) {
        let a = prefixes[rng.below(prefixes.len())];
        let b = kids[rng.below(kids.len())];
        let c = kids[rng.below(kids.len())];
        let p = vec![base + a, base + b, base + c];
        if !pats.contains(&p) {
            pats.push(p);
        }
    }
    rng.shuffle(&mut pats);
    let kind = *rng.pick(&kinds_for(cx.prop));
    let alpha = Alpha {
        pat: prefixes.iter().map(|&p| base + p).chain(kids.iter().take(6).map(|&x| base + x)).chain([base]).collect(),
        extra: vec![base + universe + 1],
    };
    let hays: Vec<Rc<Vec<u8>>> = (0..3).map(|_| Rc::new(gen_haystack(rng, var, &alpha, 40, &pats[..pats.len().min(40)]))).collect();
    let mut nfbs: Vec<u32> = if cx.prop == "C11" { if cx.thorough { vec![16, 1, 2, 3] } else { vec![16, 2] } } else { vec![*rng.pick(&[1u32, 2, 2, 3, 4, 5, 6, 7, 16])] };
    if cx.prop == "C11" && cx.thorough {
        nfbs.push(rng.range(4, 15) as u32);
    }
    for nfb in nfbs {
        let spec = BuildSpec { var, kind, entry: "new", via_builder: true, nfb, pats: pats.clone() };
        run_block::<u32>(t, rng, cx, &spec, &[], &hays, &[], false);
    }
}

/// Long chains of single-child states: they pack the first blocks completely (no vacant slot is
/// left in block 0), give many states the same small BASE values, and keep every block active
/// under the default num_free_blocks.
fn fam_chain(t: &mut Tracer, rng: &mut Rng, cx: &Ctx) {
    let var = if cx.prop == "C08" || rng.chance(1, 4) { Var::C } else { Var::B };
    let base: u32 = if var == Var::C { *rng.pick(&[0u32, 0, 0x61, 0x4e00]) } else { 0 };
    // 2-5 labels out of 1..=8 (0x00 / the first character only in the short patterns below): the
    // smallest label decides which small BASE the root gets (BASE = first vacant slot ^ label)
    let k = rng.range(2, 5);
    let mut pool: Vec<u32> = (1..=8).collect();
    rng.shuffle(&mut pool);
    let mut alpha: Vec<u32> = pool.into_iter().take(k).map(|x| base + x).collect();
    alpha.sort_unstable();
    let nlong = rng.range(1, 3);
    let mut pats: Vec<Pat> = vec![];
    for _ in 0..nlong {
        let n = if cx.thorough { rng.range(300, 900) } else { rng.range(260, 620) };
        pats.push((0..n).map(|_| *rng.pick(&alpha)).collect());
    }
    if rng.chance(1, 2) {
        pats.push(vec![base]);
        if rng.chance(1, 2) {
            pats.push(vec![base, alpha[0]]);
        }
    }
    for _ in 0..rng.range(0, 4) {
        let l = rng.range(1, 3);
        let p: Pat = (0..l).map(|_| *rng.pick(&alpha)).collect();
        if !pats.contains(&p) {
            pats.push(p);
        }
    }
    // prefixes of the long patterns whose lengths sit next to powers of two, and extensions of those prefixes:
    // nested long patterns (under leftmost-first the later ones are shadowed by prefixes that are themselves long)
    if rng.chance(1, 2) {
        let long0 = pats[0].clone();
        for _ in 0..rng.range(1, 3) {
            let m = *rng.pick(&[31usize, 32, 33, 63, 64, 65, 66, 100, 127, 128, 129, 200, 255, 256, 257]);
            let m = m.min(long0.len() - 1);
            let pre: Pat = long0[..m].to_vec();
            if !pats.contains(&pre) {
                pats.push(pre.clone());
            }
            if rng.chance(2, 3) {
                let mut e = pre;
                for _ in 0..rng.range(1, 2) {
                    e.push(*rng.pick(&alpha));
                }
                if !pats.contains(&e) {
                    pats.push(e);
                }
            }
        }
    }
    // (half of the time in registration order "shorter first", which is the order that shadows)
    if rng.chance(1, 2) {
        rng.shuffle(&mut pats);
    } else {
        pats.sort_by_key(|p| p.len());
    }
    let kind = *rng.pick(&kinds_for(cx.prop));
    let nfb = if cx.prop == "C11" { *rng.pick(&[1u32, 2, 2, 3]) } else { *rng.pick(&[16u32, 16, 2, 3, 1, 64]) };
    let spec = BuildSpec { var, kind, entry: "new", via_builder: true, nfb, pats };
    let ha = Alpha { pat: alpha.iter().copied().chain([base]).collect(), extra: vec![base + 40] };
    let hays: Vec<Rc<Vec<u8>>> = (0..3)
        .map(|_| Rc::new(gen_haystack(rng, var, &ha, 30, &spec.pats.iter().filter(|p| p.len() < 10).cloned().collect::<Vec<_>>())))
        .collect();
    if cx.prop == "C08" && var == Var::C {
        let twin = BuildSpec {
            var: Var::B,
            pats: spec.pats.iter().map(|p| pat_bytes(Var::C, p).iter().map(|&b| u32::from(b)).collect()).collect(),
            ..spec.clone()
        };
        run_block::<u32>(t, rng, cx, &twin, &[], &hays, &[], false);
    }
    if cx.prop == "C11" {
        let twin = BuildSpec { nfb: 16, ..spec.clone() };
        run_block::<u32>(t, rng, cx, &twin, &[], &hays, &[], false);
    }
    run_block::<u32>(t, rng, cx, &spec, &[], &hays, &[], false);
}

/// A haystack longer than 65 535 bytes: offsets beyond the range of any 16-bit bookkeeping.
fn fam_longhay(t: &mut Tracer, rng: &mut Rng, cx: &Ctx) {
    let var = if cx.prop == "C08" || rng.chance(1, 3) { Var::C } else { Var::B };
    let alpha = pick_alphabet(rng, var);
    let np = rng.range(2, 5);
    let pats = gen_patterns(rng, &alpha.pat, np, 4);
    let kind = *rng.pick(&kinds_for(cx.prop));
    let spec = BuildSpec { var, kind, entry: "new", via_builder: true, nfb: 16, pats };
    // mostly a filler label that occurs in no pattern, a few occurrences near both ends and across 65 536
    let filler = alpha.extra.first().copied().unwrap_or(0x7a);
    let w0 = pat_bytes(var, &vec![filler]).len();
    let total = (66_000 + rng.below(1500)) / w0 + 8; // about 66 000 BYTES whatever the character width
    let mut labels: Vec<u32> = vec![filler; total];
    let put = |labels: &mut Vec<u32>, at: usize, p: &Pat| {
        for (i, &l) in p.iter().enumerate() {
            if at + i < labels.len() {
                labels[at + i] = l;
            }
        }
    };
    // label index such that the byte offset is near 65 536 for every character width
    let w = pat_bytes(var, &vec![filler]).len();
    for &at in &[3usize, 65_530 / w, 65_536 / w, 65_540 / w, total - 6] {
        let p = spec.pats[rng.below(spec.pats.len())].clone();
        put(&mut labels, at, &p);
    }
    let mut hay = vec![];
    for &l in &labels {
        hay.extend_from_slice(&pat_bytes(var, &vec![l]));
    }
    let hay = Rc::new(hay);
    if cx.prop == "C08" && var == Var::C {
        let twin = BuildSpec {
            var: Var::B,
            pats: spec.pats.iter().map(|p| pat_bytes(Var::C, p).iter().map(|&b| u32::from(b)).collect()).collect(),
            ..spec.clone()
        };
        run_block::<u32>(t, rng, cx, &twin, &[], std::slice::from_ref(&hay), &[], false);
    }
    run_block::<u32>(t, rng, cx, &spec, &[], std::slice::from_ref(&hay), &[], false);
}

/// A scenario small enough for an interpreter (Miri): tiny automata with num_free_blocks 1, every
/// search method through the slice, byte-iterator and by-value entry points, one round trip.
/// No table dump (the 256-label sweep is what makes the other families slow under Miri).
fn fam_miri(t: &mut Tracer, rng: &mut Rng, _cx: &Ctx) {
    for var in [Var::B, Var::C] {
        let mut alpha = pick_alphabet(rng, var);
        if var == Var::C {
            // pattern characters below U+0800 keep the mapper table small (its loops dominate under
            // an interpreter); 3- and 4-byte characters still occur in the haystacks
            alpha = Alpha { pat: vec![0x61, 0xe9, 0x7ff], extra: vec![0x4e16, 0x1f600, 0x10ffff, 0x62] };
        }
        let kind = *rng.pick(&[Kind::Std, Kind::LL, Kind::LF]);
        let np = rng.range(1, 3);
        let pats = gen_patterns(rng, &alpha.pat, np, 3);
        let spec = BuildSpec { var, kind, entry: "new", via_builder: true, nfb: 1, pats };
        let (h, pma) = ev_build::<u32>(t, &spec, &[]);
        let Some(pma) = pma else { continue };
        let mut hays: Vec<Rc<Vec<u8>>> = (0..2).map(|_| Rc::new(gen_haystack(rng, var, &alpha, 9, &spec.pats))).collect();
        if var == Var::B {
            // exactly 8 bytes: handed over as [u8; 8] by value (bytes stored inline in the iterator)
            let mut h8 = hays[0].as_ref().clone();
            while h8.len() < 8 {
                h8.push(*rng.pick(&alpha.pat) as u8);
            }
            h8.truncate(8);
            hays[0] = Rc::new(h8);
        }
        for hay in &hays {
            for m in kind.methods() {
                ev_search(t, h, &pma, m, "slice", hay, 0);
                ev_search(t, h, &pma, m, "owned", hay, 0);
                if *m != "lm" {
                    ev_search(t, h, &pma, m, "iter", hay, 0);
                }
            }
        }
        let (h2, p2) = ev_roundtrip(t, h, &pma, &[5]);
        for m in kind.methods() {
            ev_search(t, h2, &p2, m, "slice", &hays[0], 0);
        }
    }
}

/// C10: collections with defects injected at random positions
fn invalid_typed<V: Val>(t: &mut Tracer, rng: &mut Rng, _cx: &Ctx, var: Var, kind: Kind) {
    let mut alpha = pick_alphabet(rng, var);
    let mut np = rng.range(0, 6);
    // sometimes long patterns (of mixed character widths): error paths format the offending pattern
    let long = rng.chance(if var == Var::C { 2 } else { 1 }, 4);
    if long && var == Var::C {
        alpha.pat = vec![0x61, 0xe9, 0x4e16, 0x1f600, 0x62];
        np = np.max(1);
    }
    let maxlen = if long { rng.range(9, 40) } else { 3 };
    let mut pats = gen_patterns(rng, &alpha.pat, np, maxlen);
    if long {
        // at least one really long entry
        let n = rng.range(9, maxlen);
        let p: Pat = (0..n).map(|_| *rng.pick(&alpha.pat)).collect();
        if !pats.contains(&p) {
            pats.push(p);
        }
    }
    // a repeat of the longest pattern when patterns are long (the error message formats it)
    if maxlen > 3 && rng.chance(2, 3) {
        if let Some(longest) = pats.iter().max_by_key(|p| p.len()).cloned() {
            let at = rng.range(0, pats.len());
            pats.insert(at, longest);
        }
    }
    // one scenario in four is an otherwise VALID collection with shadowed patterns sharing tails
    let shared_tail_mode = !long && kind == Kind::LF && rng.chance(1, 2) && pats.len() >= 2;
    // defects: empty entry, repeat of an existing entry (possibly shadowed), none
    let ndef = if shared_tail_mode { 0 } else { rng.range(0, 2) };
    for _ in 0..ndef {
        match rng.below(3) {
            0 => {
                let at = rng.range(0, pats.len());
                pats.insert(at, vec![]);
            }
            _ => {
                if !pats.is_empty() {
                    let src = pats[rng.below(pats.len())].clone();
                    let at = rng.range(0, pats.len());
                    pats.insert(at, src);
                }
            }
        }
    }
    // extensions of existing patterns make shadowing likely
    if !shared_tail_mode && rng.chance(1, 2) && !pats.is_empty() {
        let mut e = pats[rng.below(pats.len())].clone();
        if !e.is_empty() {
            e.push(*rng.pick(&alpha.pat));
            let at = rng.range(0, pats.len());
            let dup = rng.chance(1, 2);
            pats.insert(at, e.clone());
            if dup {
                let at2 = rng.range(0, pats.len());
                pats.insert(at2, e);
            }
        }
    }
    // several patterns that are shadowed (under leftmost-first) by different prefixes but share a
    // tail, and possibly a genuine repeat of one of them
    if (shared_tail_mode || rng.chance(1, 4)) && pats.iter().filter(|p| !p.is_empty()).count() >= 2 {
        let ne: Vec<Pat> = pats.iter().filter(|p| !p.is_empty()).cloned().collect();
        let ia = rng.below(ne.len());
        let ib = (ia + 1 + rng.below(ne.len() - 1)) % ne.len();
        let a = ne[ia].clone();
        let b = ne[ib].clone();
        let tl = rng.range(1, 2);
        let tail: Pat = (0..tl).map(|_| *rng.pick(&alpha.pat)).collect();
        for base in [a, b] {
            let mut e = base;
            e.extend_from_slice(&tail);
            if !pats.contains(&e) || rng.chance(1, 6) {
                pats.push(e);
            }
        }
    }
    // a chain of nested prefixes of one word registered in an arbitrary order, with a repeat of one of them
    // anywhere after its first registration: under leftmost-first the state that shadows the repeated
    // pattern can change between its two registrations (["ab","abx","a","abx"])
    if !long && rng.chance(1, 5) {
        let n = rng.range(3, 5);
        let w: Pat = (0..n).map(|_| *rng.pick(&alpha.pat)).collect();
        let mut lens: Vec<usize> = (1..=n).collect();
        rng.shuffle(&mut lens);
        lens.truncate(rng.range(2, n));
        let mut chain: Vec<Pat> = lens.iter().map(|&l| w[..l].to_vec()).collect();
        if rng.chance(1, 2) {
            // middle, long, short, long again (other prefixes in between now and then)
            let l1 = rng.range(2, n - 1);
            let l0 = rng.range(1, l1 - 1);
            chain = vec![w[..l1].to_vec(), w.clone(), w[..l0].to_vec(), w.clone()];
            if rng.chance(1, 3) {
                let at = rng.range(1, 3);
                let l = rng.range(1, n);
                if !chain.contains(&w[..l].to_vec()) {
                    chain.insert(at, w[..l].to_vec());
                }
            }
        } else if rng.chance(4, 5) {
            let i = rng.below(chain.len());
            let rep = chain[i].clone();
            let at = rng.range(i + 1, chain.len());
            chain.insert(at, rep);
        }
        pats.retain(|p| !p.is_empty() && !chain.contains(p));
        pats.truncate(2);
        for c in chain {
            pats.push(c);
        }
        // (the relative order of the chain is kept; unrelated patterns stay in front)
    }
    let entry = if rng.chance(1, 2) { "new" } else { "with_values" };
    let via_builder = kind != Kind::Std || rng.chance(1, 2);
    let nfb = if via_builder { *rng.pick(&[1u32, 2, 16]) } else { 16 };
    let spec = BuildSpec { var, kind, entry, via_builder, nfb, pats };
    let vals: Vec<V> = mk_vals(rng, spec.pats.len(), entry);
    let (h, pma) = ev_build(t, &spec, &vals);
    if let Some(pma) = pma {
        // a successful build must be usable
        let hay = Rc::new(gen_haystack(rng, var, &alpha, 10, &spec.pats));
        for m in kind.methods() {
            ev_search(t, h, &pma, m, "slice", &hay, 0);
        }
    }
}

/// C10: index conversion limits of narrow value types through the bare-pattern entry point
fn conv_typed<V: Val>(t: &mut Tracer, rng: &mut Rng, var: Var, kind: Kind) {
    let limit = V::max_index() as usize; // 255 or 127
    let n = *rng.pick(&[limit - 1, limit, limit + 1, limit + 2, limit + 2, limit + 30, limit + 130]);
    // n distinct two-symbol patterns
    let mut pats: Vec<Pat> = vec![];
    let base: u32 = if var == Var::B { 0 } else { 0x4e00 };
    'outer: for a in 0..40u32 {
        for b in 0..40u32 {
            if pats.len() >= n {
                break 'outer;
            }
            pats.push(vec![base + a, base + b]);
        }
    }
    if rng.chance(1, 3) && pats.len() > 3 {
        // a duplicate as well: both error kinds apply
        let d = pats[1].clone();
        pats.push(d);
    }
    let entry = if rng.chance(3, 4) { "new" } else { "with_values" };
    let spec = BuildSpec { var, kind, entry, via_builder: true, nfb: 16, pats };
    let vals: Vec<V> = mk_vals(rng, spec.pats.len(), entry);
    let _ = ev_build(t, &spec, &vals);
}

fn fam_invalid(t: &mut Tracer, rng: &mut Rng, cx: &Ctx) {
    let var = if rng.chance(1, 2) { Var::C } else { Var::B };
    let kind = *rng.pick(&[Kind::Std, Kind::LL, Kind::LF, Kind::LF]);
    if rng.chance(1, 4) {
        if rng.chance(2, 3) {
            conv_typed::<u8>(t, rng, var, kind);
        } else {
            conv_typed::<i8>(t, rng, var, kind);
        }
        return;
    }
    if rng.chance(1, 6) {
        // a repeated LONG pattern of mixed character widths / arbitrary bytes: the error path formats it
        let alpha: Vec<u32> = if var == Var::C { vec![0x61, 0xe9, 0x4e16, 0x1f600, 0x62] } else { vec![0, 1, 0x61, 0x80, 0xff] };
        let n = rng.range(11, 45);
        let long: Pat = (0..n).map(|_| *rng.pick(&alpha)).collect();
        let nshort = rng.below(3);
        let mut pats = gen_patterns(rng, &alpha, nshort, 3);
        pats.retain(|p| *p != long);
        let at = rng.range(0, pats.len());
        pats.insert(at, long.clone());
        let at2 = rng.range(at + 1, pats.len());
        pats.insert(at2, long);
        let spec = BuildSpec { var, kind, entry: "new", via_builder: true, nfb: 16, pats };
        let _ = ev_build::<u32>(t, &spec, &[]);
        return;
    }
    let vt: &str = *rng.pick(ALL_TYPES);
    with_val!(vt, invalid_typed(t, rng, cx, var, kind));
}

/// C14: same input twice, permutations, purity of searching
fn perm_typed<V: Val>(t: &mut Tracer, rng: &mut Rng, _cx: &Ctx, var: Var, kind: Kind) {
    let alpha = if rng.chance(1, 3) { dict_alphabet(rng, var) } else { pick_alphabet(rng, var) };
    let np = match rng.below(6) {
        0 => rng.range(20, 80),
        1 => rng.range(100, 220), // several blocks
        _ => rng.range(2, 6),
    };
    let pats = gen_patterns(rng, &alpha.pat, np, 5);
    let nfb = *rng.pick(&[1u32, 2, 16]);
    let spec = BuildSpec { var, kind, entry: "with_values", via_builder: true, nfb, pats };
    let vals: Vec<V> = mk_vals(rng, spec.pats.len(), "with_values");
    let (h1, a) = ev_build(t, &spec, &vals);
    let Some(a) = a else { return };
    let (h2, b) = ev_build(t, &spec, &vals);
    let Some(b) = b else { return };
    ev_same(t, h1, &a, h2, &b, "rebuild");
    // permutations
    let nperm = if spec.pats.len() <= 4 { 6 } else { 3 };
    for _ in 0..nperm {
        let mut idx: Vec<usize> = (0..spec.pats.len()).collect();
        rng.shuffle(&mut idx);
        let spec2 = BuildSpec { pats: idx.iter().map(|&i| spec.pats[i].clone()).collect(), ..spec.clone() };
        let vals2: Vec<V> = idx.iter().map(|&i| vals[i]).collect();
        let (h3, c) = ev_build(t, &spec2, &vals2);
        if let Some(c) = c {
            ev_same(t, h1, &a, h3, &c, "permutation");
        }
    }
    // a clone is the same automaton and answers the same
    {
        let hc = t.handle();
        let c = a.clone_pma();
        t.emit(json!({"ev": "clone", "h": h1, "h2": hc}));
        ev_same(t, h1, &a, hc, &c, "clone");
        let hay = Rc::new(gen_haystack(rng, var, &alpha, 20, &spec.pats));
        for m in kind.methods() {
            ev_search(t, h1, &a, m, "slice", &hay, 0);
            ev_search(t, hc, &c, m, "slice", &hay, 0);
        }
    }
    // an automaton of other patterns overwritten in place (`clone_from`) is its source
    {
        let alpha2 = pick_alphabet(rng, var);
        let np2 = rng.range(1, 12);
        let pats2 = gen_patterns(rng, &alpha2.pat, np2, 5);
        let spec2 = BuildSpec { pats: pats2, ..spec.clone() };
        let vals2: Vec<V> = mk_vals(rng, spec2.pats.len(), "with_values");
        let (_hv, victim) = ev_build(t, &spec2, &vals2);
        if let Some(mut victim) = victim {
            victim.clone_from_pma(&a);
            let hc = t.handle();
            t.emit(json!({"ev": "clone", "h": h1, "h2": hc, "how": "clone_from"}));
            ev_same(t, h1, &a, hc, &victim, "clone");
            let hay = Rc::new(gen_haystack(rng, var, &alpha, 20, &spec.pats));
            for m in kind.methods() {
                ev_search(t, h1, &a, m, "slice", &hay, 0);
                ev_search(t, hc, &victim, m, "slice", &hay, 0);
            }
        }
    }
    // purity: a clone taken before the searches equals the automaton afterwards
    let before = a.clone_pma();
    let bytes_before = a.serialize();
    let hays: Vec<Rc<Vec<u8>>> =
        (0..3).map(|_| Rc::new(gen_haystack(rng, var, &alpha, 20, &spec.pats))).collect();
    for hay in &hays {
        for m in kind.methods() {
            ev_search(t, h1, &a, m, "slice", hay, 0);
            ev_search(t, h1, &a, m, "slice", hay, 0);
        }
    }
    t.emit(json!({"ev": "pure", "h": h1, "eq": a.same(&before), "bytes_eq": a.serialize() == bytes_before}));
}

fn fam_perm(t: &mut Tracer, rng: &mut Rng, cx: &Ctx) {
    let var = if rng.chance(1, 2) { Var::C } else { Var::B };
    let kind = *rng.pick(&[Kind::Std, Kind::LL, Kind::LF]);
    let vt: &str = *rng.pick(&["u32", "u64", "i8", "u16"]);
    with_val!(vt, perm_typed(t, rng, cx, var, kind));
}

/// C14: several threads search one shared automaton; each thread records its own events
fn fam_threads(t: &mut Tracer, rng: &mut Rng, cx: &Ctx) {
    let nthreads = if cx.thorough { 8 } else { 4 };
    for var in [Var::B, Var::C] {
        let kind = *rng.pick(&[Kind::Std, Kind::LL, Kind::LF]);
        let alpha = pick_alphabet(rng, var);
        let npat = rng.range(2, 8);
        let pats = gen_patterns(rng, &alpha.pat, npat, 4);
        let spec = BuildSpec { var, kind, entry: "new", via_builder: true, nfb: 16, pats };
        let (h, pma) = ev_build::<u32>(t, &spec, &[]);
        let Some(pma) = pma else { continue };
        let hays: Vec<Vec<u8>> = (0..6).map(|_| gen_haystack(rng, var, &alpha, 24, &spec.pats)).collect();
        let before = pma.serialize();
        for hv in &hays {
            let hay = Rc::new(hv.clone());
            for m in kind.methods() {
                ev_search(t, h, &pma, m, "slice", &hay, 0);
            }
        }
        let results: Vec<Vec<Value>> = std::thread::scope(|s| {
            let handles: Vec<_> = (0..nthreads)
                .map(|ti| {
                    let pma = &pma;
                    let hays = &hays;
                    s.spawn(move || {
                        let mut evs = vec![];
                        for round in 0..4usize {
                            let hay = Rc::new(hays[(ti + round) % hays.len()].clone());
                            for m in kind.methods() {
                                let cap = (hay.len() + 1) * 64 + 16;
                                let (ms, pulled, probes, hops, capped) =
                                    pma.search_all(m, "slice", &hay, cap);
                                evs.push(json!({
                                    "ev": "search", "h": h, "method": m, "entry": "slice",
                                    "thread": ti + 1, "hay": hay.as_slice(),
                                    "res": ms.iter().map(MatchRec::json).collect::<Vec<_>>(),
                                    "pulled": pulled, "probes": probes, "hops": hops, "capped": capped,
                                }));
                            }
                        }
                        evs
                    })
                })
                .collect();
            handles.into_iter().map(|h| h.join().unwrap_or_default()).collect()
        });
        // per-thread order is the only order used: there is no shared mutable state to order
        for evs in results {
            for e in evs {
                t.emit(e);
            }
        }
        t.emit(json!({"ev": "pure", "h": h, "eq": true, "bytes_eq": pma.serialize() == before}));
    }
}

/// C12: interleaved next() calls on several iterators over counting sources
fn fam_lazy(t: &mut Tracer, rng: &mut Rng, _cx: &Ctx) {
    let var = if rng.chance(1, 2) { Var::C } else { Var::B };
    let alpha = pick_alphabet(rng, var);
    let npat = rng.range(1, 5);
    let pats = gen_patterns(rng, &alpha.pat, npat, 3);
    let spec = BuildSpec { var, kind: Kind::Std, entry: "new", via_builder: false, nfb: 16, pats };
    let (h, pma) = ev_build::<u32>(t, &spec, &[]);
    let Some(pma) = pma else { return };
    let hays: Vec<Rc<Vec<u8>>> =
        (0..3).map(|_| Rc::new(gen_haystack(rng, var, &alpha, 12, &spec.pats))).collect();
    // reference: uninterrupted slice runs of every method on every haystack
    for hay in &hays {
        for m in ["ov", "find", "nosuf"] {
            ev_search(t, h, &pma, m, "slice", hay, 0);
        }
    }
    let mut its = vec![];
    for (i, hay) in hays.iter().enumerate() {
        let m = ["ov", "find", "nosuf"][(i + rng.below(3)) % 3];
        let entry = if rng.chance(3, 4) { "iter" } else { "slice" };
        let id = t.iter_id();
        t.emit(json!({"ev": "iter_new", "it": id, "h": h, "method": m, "entry": entry, "hay": hay.as_slice()}));
        its.push((id, pma.iter(m, entry, hay), false, 0usize));
    }
    // interleave until all are exhausted (each may be polled once more after None)
    let mut guard = 0;
    while its.iter().any(|x| !x.2) && guard < 2000 {
        guard += 1;
        let k = rng.below(its.len());
        if its[k].2 {
            continue;
        }
        // now and then the rest of an iterator goes to fold / for_each / count / last
        if rng.chance(1, 12) {
            let (id, it, _, _) = its.remove(k);
            ev_drain(t, rng, id, it, None);
            continue;
        }
        let (m, pulled, probes, hops) = its[k].1.step();
        let res: Vec<Value> = m.iter().map(MatchRec::json).collect();
        t.emit(json!({"ev": "next", "it": its[k].0, "res": res, "pulled": pulled, "probes": probes, "hops": hops}));
        if m.is_none() {
            its[k].2 = true;
        }
        its[k].3 += 1;
    }
    // an exhausted iterator polled again stays exhausted
    for k in 0..its.len() {
        let (m, pulled, probes, hops) = its[k].1.step();
        let res: Vec<Value> = m.iter().map(MatchRec::json).collect();
        t.emit(json!({"ev": "next", "it": its[k].0, "res": res, "pulled": pulled, "probes": probes, "hops": hops}));
    }
}

/// Leftmost-first collections with shadowed patterns that contain characters / bytes occurring in
/// no reportable pattern: the code mapper's domain is then larger than the set of edge labels, and
/// the alphabet size straddles a power of two.
fn fam_shadow(t: &mut Tracer, rng: &mut Rng, cx: &Ctx) {
    let var = if rng.chance(3, 4) { Var::C } else { Var::B };
    let k = *rng.pick(&[1usize, 2, 3, 4, 6, 7, 8, 14, 15, 16]);
    let base_cp: u32 = if var == Var::C { *rng.pick(&[0x61u32, 0x3b1, 0x4e00, 0x1f600]) } else { 2 };
    let a: Vec<u32> = (0..k as u32).map(|i| base_cp + i).collect();
    let fresh_base: u32 = base_cp + 40;
    let nbase = rng.range(1, 8);
    let mut pats = gen_patterns(rng, &a, nbase, 3);
    // now and then one of the shadowing prefixes is itself long (lengths next to powers of two)
    if rng.chance(1, 3) {
        let n = *rng.pick(&[15usize, 16, 17, 31, 32, 33, 63, 64, 65, 70, 127, 128, 129, 255, 256, 257, 300]);
        let p: Pat = (0..n).map(|_| *rng.pick(&a)).collect();
        let at = rng.below(pats.len() + 1);
        pats.insert(at, p);
        // a pattern is reportable only if no earlier-registered proper prefix exists: keep the long one first
        // among those it extends, half of the time
        if rng.chance(1, 2) {
            let long = pats.remove(at);
            pats.insert(0, long);
        }
    }
    let mut extra_chars: Vec<u32> = vec![];
    let nshadow = rng.range(1, 5);
    let nlong = pats.iter().filter(|p| p.len() > 8).count();
    for j in 0..nshadow {
        // (the long prefix, when there is one, gets an extension for sure)
        let src = if j == 0 && nlong > 0 {
            pats.iter().find(|p| p.len() > 8).unwrap().clone()
        } else {
            pats[rng.below(pats.len())].clone()
        };
        let mut e = src;
        for q in 0..rng.range(1, 3) {
            let c = fresh_base + (j * 3 + q) as u32;
            e.push(c);
            extra_chars.push(c);
        }
        if !pats.contains(&e) {
            pats.push(e); // registered after its prefix: shadowed under leftmost-first
        }
    }
    let kind = if cx.prop == "C04" || rng.chance(3, 4) { Kind::LF } else { *rng.pick(&kinds_for(cx.prop)) };
    let nfb = *rng.pick(&[1u32, 2, 16]);
    let spec = BuildSpec { var, kind, entry: "new", via_builder: true, nfb, pats };
    let alpha = Alpha { pat: a.iter().copied().chain(extra_chars.iter().copied()).collect(), extra: vec![fresh_base + 39] };
    let hays: Vec<Rc<Vec<u8>>> =
        (0..4).map(|_| Rc::new(gen_haystack(rng, var, &alpha, 16, &spec.pats))).collect();
    let ex: Vec<u32> = extra_chars.iter().copied().take(3).collect();
    run_block::<u32>(t, rng, cx, &spec, &[], &hays, &ex, true);
}

/// Counts next to the limits of narrow integer types: one character that occurs about 255 / 65 535 times in the
/// collection (frequency counters of the code mapper), built in several registration orders, round-tripped,
/// searched.  The trie is small (the patterns are runs of that character), the totals are not.
fn fam_bigfreq(t: &mut Tracer, rng: &mut Rng, cx: &Ctx) {
    let var = if rng.chance(3, 4) { Var::C } else { Var::B };
    let base: u32 = if var == Var::C { *rng.pick(&[0x61u32, 0x3042, 0x1f600]) } else { 0x61 };
    // 1 + 2 + ... + n occurrences of the frequent character
    let n = *rng.pick(&[22usize, 23, 361, 362, 362, 363, 363, 370, 724]);
    let mut freq: Vec<Pat> = (1..=n).map(|k| vec![base; k]).collect();
    let (b, c) = (base + 1, base + 2);
    let mut rare: Vec<Pat> = vec![vec![b], vec![b, b], vec![c], vec![c, c], vec![c, base]];
    // (a character that occurs exactly once, half of the time)
    rare.truncate(if rng.chance(1, 2) { 1 } else { rng.range(2, 5) });
    let kind = if cx.prop == "C14" { *rng.pick(&[Kind::Std, Kind::LL]) } else { *rng.pick(&[Kind::Std, Kind::LL, Kind::LF]) };
    let entry = "with_values";
    let mk = |pats: Vec<Pat>| BuildSpec { var, kind, entry, via_builder: true, nfb: 16, pats };
    // values travel with their patterns
    let all: Vec<Pat> = rare.iter().cloned().chain(freq.iter().cloned()).collect();
    let val_of = |p: &Pat| -> u32 { all.iter().position(|q| q == p).unwrap() as u32 + 1 };
    let order1: Vec<Pat> = all.clone(); // rare first
    rng.shuffle(&mut freq);
    let order2: Vec<Pat> = freq.iter().cloned().chain(rare.iter().cloned()).collect(); // frequent first
    let mut order3 = all.clone();
    rng.shuffle(&mut order3);
    let hays: Vec<Rc<Vec<u8>>> = (0..2)
        .map(|_| {
            let mut labels: Vec<u32> = vec![];
            for _ in 0..rng.range(3, 12) {
                labels.push(*rng.pick(&[base, base, b, c, base + 3]));
            }
            Rc::new(pat_bytes(var, &labels))
        })
        .collect();
    let mut first: Option<(u32, Pma<u32>)> = None;
    for (k, ord) in [order1, order2, order3].into_iter().enumerate() {
        let vals: Vec<u32> = ord.iter().map(&val_of).collect();
        let spec = mk(ord);
        let (h, pma) = ev_build::<u32>(t, &spec, &vals);
        let Some(pma) = pma else { continue };
        for hay in &hays {
            for m in kind.methods() {
                ev_search(t, h, &pma, m, "slice", hay, 0);
            }
        }
        if k == 0 || matches!(cx.prop, "C09" | "C07") {
            let (h2, p2) = ev_roundtrip(t, h, &pma, &[1, 2]);
            for m in kind.methods() {
                ev_search(t, h2, &p2, m, "slice", &hays[0], 0);
            }
        }
        match &first {
            None => first = Some((h, pma)),
            Some((h1, a)) => ev_same(t, *h1, a, h, &pma, "permutation"),
        }
    }
}

/// Alphabets next to the limits of narrow integer types: 255 / 256 / 257 and 65 535 / 65 536 / 65 537 distinct
/// pattern characters (code mapper tables, codes stored in narrow fields, sentinel values).  No table dump
/// (it is quadratic in the alphabet); construction, searches, round trip, searches on the restored automaton.
fn fam_bigalpha(t: &mut Tracer, rng: &mut Rng, cx: &Ctx) {
    let var = Var::C;
    let n: usize = if rng.chance(1, 2) { *rng.pick(&[255usize, 256, 256, 256, 257]) } else { *rng.pick(&[65_535usize, 65_536, 65_536, 65_536, 65_537]) };
    let base: u32 = *rng.pick(&[0x4e00u32, 0x100, 0x10000]);
    let ch = |i: usize| -> u32 {
        // skip the surrogate range
        let c = base + i as u32;
        if (0xd800..0xe000).contains(&c) || c >= 0xd800 && base < 0xd800 { c + 0x800 } else { c }
    };
    let mut pats: Vec<Pat> = (0..n).map(|i| vec![ch(i)]).collect();
    // a few longer patterns; their characters become more frequent than the others
    for _ in 0..rng.range(0, 3) {
        let a = ch(rng.below(n));
        let b = ch(rng.below(n));
        pats.push(vec![a, b]);
    }
    if rng.chance(1, 2) {
        rng.shuffle(&mut pats);
    }
    let kind = *rng.pick(&kinds_for(cx.prop));
    let spec = BuildSpec { var, kind, entry: "new", via_builder: true, nfb: 16, pats };
    let (h, pma) = ev_build::<u32>(t, &spec, &[]);
    let Some(pma) = pma else { return };
    let hays: Vec<Rc<Vec<u8>>> = (0..3)
        .map(|_| {
            let mut labels: Vec<u32> = vec![ch(0), ch(n - 1), ch(n - 2), ch(n), ch(1)];
            for _ in 0..rng.range(2, 8) {
                labels.push(ch(rng.below(n + 2)));
            }
            rng.shuffle(&mut labels);
            Rc::new(pat_bytes(var, &labels))
        })
        .collect();
    for hay in &hays {
        for m in kind.methods() {
            ev_search(t, h, &pma, m, "slice", hay, 0);
            if *m != "lm" {
                ev_search(t, h, &pma, m, "iter", hay, 0);
            }
        }
    }
    let (h2, p2) = ev_roundtrip(t, h, &pma, &[7]);
    for hay in &hays {
        for m in kind.methods() {
            ev_search(t, h2, &p2, m, "slice", hay, 0);
        }
    }
}

/// C06: values are the input positions, for collections so large that the positions exceed the
/// range of u8 (quick) / u16 (thorough): a truncated or wrapped index becomes visible
fn fam_bigindex(t: &mut Tracer, rng: &mut Rng, cx: &Ctx) {
    let var = if rng.chance(1, 2) { Var::C } else { Var::B };
    let n: usize = if rng.chance(1, 2) { 66_000 + rng.below(3000) } else { rng.range(300, 700) };
    let k: u32 = if n > 60_000 { 260 } else { 30 };
    let base: u32 = if var == Var::C { 0x4e00 } else { 0 };
    let sym = |d: u32| -> u32 { if var == Var::B { d % 256 } else { base + d } };
    // pattern i = the base-k digits of i, most significant first, fixed length => all distinct
    let len = if var == Var::B && k > 256 { 3 } else { 2 };
    let kk = if var == Var::B { k.min(256) } else { k };
    let len = if (kk as usize).pow(len as u32) < n { len + 1 } else { len };
    let pats: Vec<Pat> = (0..n)
        .map(|i| {
            let mut d = vec![];
            let mut x = i as u32;
            for _ in 0..len {
                d.push(sym(x % kk));
                x /= kk;
            }
            d.reverse();
            d
        })
        .collect();
    let kind = *rng.pick(&[Kind::Std, Kind::LL, Kind::LF]);
    let vt = *rng.pick(&["u32", "u64", "usize", "i32", "u128"]);
    let spec = BuildSpec { var, kind, entry: "new", via_builder: true, nfb: 16, pats };
    fn go<V: Val>(t: &mut Tracer, rng: &mut Rng, spec: &BuildSpec) {
        let (h, pma) = ev_build::<V>(t, spec, &[]);
        let Some(pma) = pma else { return };
        for _ in 0..3 {
            let mut hay = vec![];
            for _ in 0..6 {
                // late patterns: their positions are the large ones
                let i = spec.pats.len() - 1 - rng.below(spec.pats.len().min(200));
                hay.extend_from_slice(&pat_bytes(spec.var, &spec.pats[i]));
                let j = rng.below(spec.pats.len());
                hay.extend_from_slice(&pat_bytes(spec.var, &spec.pats[j]));
            }
            let hay = Rc::new(hay);
            for m in spec.kind.methods() {
                ev_search(t, h, &pma, m, "slice", &hay, 0);
            }
        }
        let (h2, p2) = ev_roundtrip(t, h, &pma, &[7]);
        let i = spec.pats.len() - 1;
        let hay = Rc::new(pat_bytes(spec.var, &spec.pats[i]));
        for m in spec.kind.methods() {
            ev_search(t, h2, &p2, m, "slice", &hay, 0);
        }
    }
    with_val!(vt, go(t, rng, &spec));
}

/// C06: a pattern longer than 255 (quick) / 65 535 (thorough) bytes: start = end - length must
/// survive any narrower representation of the length
fn fam_longpat(t: &mut Tracer, rng: &mut Rng, cx: &Ctx) {
    let var = if rng.chance(1, 2) { Var::C } else { Var::B };
    let n: usize = if cx.thorough && rng.chance(1, 2) { 66_000 + rng.below(500) } else { rng.range(260, 900) };
    let alpha: Vec<u32> = if var == Var::C { vec![0x61, 0xe9, 0x4e16, 0x1f600] } else { vec![0, 1, 0x61, 0xff] };
    let long: Pat = (0..n).map(|_| *rng.pick(&alpha)).collect();
    let mut pats = vec![long.clone()];
    pats.push(long[n - 3..].to_vec());
    pats.push(long[..2].to_vec());
    pats.dedup();
    let mut seen = std::collections::HashSet::new();
    pats.retain(|p| seen.insert(p.clone()));
    let kind = *rng.pick(&[Kind::Std, Kind::LL, Kind::LF]);
    let spec = BuildSpec { var, kind, entry: "new", via_builder: true, nfb: *rng.pick(&[1u32, 16]), pats };
    let (h, pma) = ev_build::<u32>(t, &spec, &[]);
    let Some(pma) = pma else { return };
    let mut hay = pat_bytes(var, &vec![alpha[1]]);
    hay.extend_from_slice(&pat_bytes(var, &long));
    hay.extend_from_slice(&pat_bytes(var, &long[..5].to_vec()));
    let hay = Rc::new(hay);
    for m in kind.methods() {
        ev_search(t, h, &pma, m, "slice", &hay, 0);
    }
    let (h2, p2) = ev_roundtrip(t, h, &pma, &[]);
    for m in kind.methods() {
        ev_search(t, h2, &p2, m, "slice", &hay, 0);
    }
}

/// A resumable (streaming) byte source: it answers None when everything that has arrived so far
/// was handed out and yields again later.  The overlapping and no-suffix iterators keep their
/// automaton state across such a pause, so polling them again continues the same search.
fn fam_stream(t: &mut Tracer, rng: &mut Rng, cx: &Ctx) {
    let var = if rng.chance(1, 2) { Var::C } else { Var::B };
    let alpha = pick_alphabet(rng, var);
    let npat = rng.range(1, 5);
    let pats = gen_patterns(rng, &alpha.pat, npat, 4);
    let spec = BuildSpec { var, kind: Kind::Std, entry: "new", via_builder: false, nfb: 16, pats };
    let (h, pma) = ev_build::<u32>(t, &spec, &[]);
    let Some(pma) = pma else { return };
    let _ = cx;
    for _ in 0..3 {
        let hay = Rc::new(gen_haystack(rng, var, &alpha, 14, &spec.pats));
        // arrival points on character boundaries
        let mut cuts: Vec<usize> = vec![];
        let mut off = 0usize;
        let text = hay.as_slice();
        while off < text.len() {
            let w = match var {
                Var::B => 1,
                Var::C => std::str::from_utf8(&text[off..]).unwrap().chars().next().unwrap().len_utf8(),
            };
            off += w;
            if rng.chance(1, 3) {
                cuts.push(off);
            }
        }
        if cuts.last() != Some(&text.len()) {
            cuts.push(text.len());
        }
        for m in ["ov", "nosuf"] {
            ev_search(t, h, &pma, m, "slice", &hay, 0); // reference
            let id = t.iter_id();
            t.emit(json!({"ev": "iter_new", "it": id, "h": h, "method": m, "entry": "stream", "hay": hay.as_slice()}));
            let mut it = Some(pma.iter(m, "stream", &hay));
            // after some arrival, hand what is left to an internal-iteration method instead of polling
            let drain_at = if rng.chance(1, 3) { Some((cuts[rng.below(cuts.len())], rng.below(3))) } else { None };
            for &avail in &cuts {
                let Some(cur) = it.as_mut() else { break };
                cur.limit.as_ref().unwrap().set(avail);
                // poll until the iterator reports that nothing more is available, and once more
                let mut nones = 0;
                let mut guard = 0;
                while nones < 2 && guard < 500 {
                    if let Some((at, after)) = drain_at {
                        if at == avail && guard == after {
                            ev_drain(t, rng, id, it.take().unwrap(), Some(avail));
                            break;
                        }
                    }
                    guard += 1;
                    let (mm, pulled, probes, hops) = it.as_mut().unwrap().step();
                    let res: Vec<Value> = mm.iter().map(MatchRec::json).collect();
                    t.emit(json!({"ev": "next", "it": id, "avail": avail, "res": res, "pulled": pulled, "probes": probes, "hops": hops}));
                    if mm.is_none() {
                        nones += 1;
                    }
                }
            }
        }
    }
}

/// C07: the UTF-8 decoder on branch boundaries and random scalars
fn fam_decode(t: &mut Tracer, rng: &mut Rng, _cx: &Ctx) {
    let boundaries: [u32; 14] = [
        0x00, 0x01, 0x7f, 0x80, 0x7ff, 0x800, 0xfff, 0x1000, 0xd7ff, 0xe000, 0xffff, 0x10000, 0x3ffff,
        0x10ffff,
    ];
    let mut s = String::new();
    for _ in 0..rng.range(1, 12) {
        let cp = if rng.chance(1, 2) {
            *rng.pick(&boundaries)
        } else {
            loop {
                let c = rng.below(0x110000) as u32;
                if char::from_u32(c).is_some() {
                    break c;
                }
            }
        };
        s.push(char::from_u32(cp).unwrap());
    }
    ev_decode(t, s.as_bytes());
}

/// C06/C09: every value type, 0/MIN/MAX/repeated values, before and after a round trip
fn fam_values(t: &mut Tracer, rng: &mut Rng, cx: &Ctx, i: u64) {
    // (not i % len: the family schedule is periodic in i as well and would never reach some types)
    let _ = i;
    // Empty (zero-sized, what daacfind uses) gets a sixth of the scenarios: representation shortcuts for it
    // are invisible to every other type
    let vt = if rng.chance(1, 6) {
        "Empty"
    } else if rng.chance(1, 4) {
        *rng.pick(&["usize", "isize", "i128", "u128", "u64", "i64"])
    } else {
        *rng.pick(ALL_TYPES)
    };
    let var = if rng.chance(1, 2) { Var::C } else { Var::B };
    let kind = *rng.pick(&[Kind::Std, Kind::Std, Kind::LL, Kind::LF]);
    with_val!(vt, small_typed(t, rng, cx, var, kind));
}

/// The schedule of scenario families for a property; scenario `i` is fully determined by
/// (prop, tier, seed, i).
pub fn family_of(prop: &str, i: u64) -> &'static str {
    if matches!(prop, "C01" | "C02" | "C03" | "C04" | "C05" | "C06" | "C08" | "C12") && i % 24 == 13 {
        return "longhay";
    }
    if matches!(prop, "C01" | "C05" | "C12" | "C13") && i % 12 == 7 {
        return "stream";
    }
    match prop {
        "C01" | "C02" | "C03" | "C05" | "C08" | "C13" => match i % 12 {
            11 | 3 => "dict",
            5 | 10 => "wide",
            8 | 1 => "chain",
            _ => "small",
        },
        "C04" | "C15" => match i % 12 {
            11 => "dict",
            4 | 0 => "wide",
            8 | 3 => "chain",
            2 | 6 | 9 => "shadow",
            _ => "small",
        },
        "C06" => match i % 16 {
            15 | 3 => "dict",
            5 => "wide",
            9 => "chain",
            7 => "bigindex",
            11 => "longpat",
            _ => "values",
        },
        "C09" => match i % 16 {
            15 => "dict",
            7 | 11 => "bigalpha",
            3 => "bigfreq",
            _ => "values",
        },
        "C07" => match i % 12 {
            11 => "dict",
            10 => "wide",
            8 => "chain",
            3 | 7 => "decode",
            1 | 5 | 9 => "shadow",
            _ => "small",
        },
        "C10" => match i % 20 {
            19 => "dict",
            7 | 13 => "nfb", // valid collections under many builder settings
            11 | 5 => "bigfreq",
            17 => "bigalpha",
            3 => "wide",
            _ => "invalid",
        },
        "C11" => match i % 8 {
            3 | 7 => "nfb",
            5 => "wide",
            1 | 6 => "chain",
            _ => "small",
        },
        "C12" => match i % 3 {
            0 => "lazy",
            _ => {
                if i % 24 == 23 {
                    "dict"
                } else {
                    "small"
                }
            }
        },
        "C14" => match i % 10 {
            9 => "threads",
            4 | 7 => "bigfreq",
            _ => "perm",
        },
        _ => "small",
    }
}

pub fn run_scenario(t: &mut Tracer, prop: &str, thorough: bool, seed: u64, i: u64) {
    let mut fam = family_of(prop, i);
    // under an interpreter (Miri) only the light families are affordable
    if std::env::var_os("VH_LIGHT").is_some() {
        fam = if i % 5 == 4 { "decode" } else { "miri" };
    }
    // the boundary-size families are expensive to validate (65 000-symbol collections); the thorough tier, with
    // twenty times the scenarios, runs them in every fourth of their slots (still five times as many as quick)
    if thorough && matches!(fam, "bigfreq" | "bigalpha") && (i / 20) % 4 != 0 {
        fam = match prop {
            "C09" => "values",
            "C14" => "perm",
            _ => "invalid",
        };
    }
    let sc_seed = seed.wrapping_mul(0x1000_0000_01b3).wrapping_add(i).wrapping_add(hash_str(prop));
    t.reset(i, fam, seed);
    let mut rng = Rng::new(sc_seed);
    let cx = Ctx { prop, thorough };
    // a fail-link cycle becomes a panic instead of a hang
    daachorse::verif_hooks::set_hop_limit(1_000_000);
    let r = catch_unwind(AssertUnwindSafe(|| match fam {
        "small" => fam_small(t, &mut rng, &cx),
        "dict" => fam_dict(t, &mut rng, &cx),
        "nfb" => fam_nfb(t, &mut rng, &cx),
        "invalid" => fam_invalid(t, &mut rng, &cx),
        "bigfreq" => fam_bigfreq(t, &mut rng, &cx),
        "bigalpha" => fam_bigalpha(t, &mut rng, &cx),
        "perm" => fam_perm(t, &mut rng, &cx),
        "threads" => fam_threads(t, &mut rng, &cx),
        "lazy" => fam_lazy(t, &mut rng, &cx),
        "decode" => fam_decode(t, &mut rng, &cx),
        "shadow" => fam_shadow(t, &mut rng, &cx),
        "bigindex" => fam_bigindex(t, &mut rng, &cx),
        "wide" => fam_wide(t, &mut rng, &cx),
        "stream" => fam_stream(t, &mut rng, &cx),
        "miri" => fam_miri(t, &mut rng, &cx),
        "longhay" => fam_longhay(t, &mut rng, &cx),
        "chain" => fam_chain(t, &mut rng, &cx),
        "longpat" => fam_longpat(t, &mut rng, &cx),
        "values" => fam_values(t, &mut rng, &cx, i),
        other => panic!("harness: unknown family {other}"),
    }));
    if let Err(e) = r {
        t.emit(json!({"ev": "crash", "sc": i, "why": format!("panic: {}", panic_msg(e))}));
    }
}

fn hash_str(s: &str) -> u64 {
    s.bytes().fold(0xcbf2_9ce4_8422_2325u64, |h, b| (h ^ u64::from(b)).wrapping_mul(0x1000_0000_01b3))
}
