//! Small deterministic PRNG (splitmix64) so that the harness needs no external crate.
pub struct Rng(u64);

impl Rng {
    pub fn new(seed: u64) -> Self {
        Rng(seed ^ 0x9e37_79b9_7f4a_7c15)
    }
    pub fn next_u64(&mut self) -> u64 {
        self.0 = self.0.wrapping_add(0x9e37_79b9_7f4a_7c15);
        let mut z = self.0;
        z = (z ^ (z >> 30)).wrapping_mul(0xbf58_476d_1ce4_e5b9);
        z = (z ^ (z >> 27)).wrapping_mul(0x94d0_49bb_1331_11eb);
        z ^ (z >> 31)
    }
    /// uniform in 0..n (n >= 1)
    pub fn below(&mut self, n: usize) -> usize {
        (self.next_u64() % (n as u64)) as usize
    }
    /// uniform in lo..=hi
    pub fn range(&mut self, lo: usize, hi: usize) -> usize {
        lo + self.below(hi - lo + 1)
    }
    pub fn chance(&mut self, num: usize, den: usize) -> bool {
        self.below(den) < num
    }
    pub fn pick<'a, T>(&mut self, xs: &'a [T]) -> &'a T {
        &xs[self.below(xs.len())]
    }
    pub fn shuffle<T>(&mut self, xs: &mut [T]) {
        for i in (1..xs.len()).rev() {
            let j = self.below(i + 1);
            xs.swap(i, j);
        }
    }
    pub fn fork(&mut self) -> Rng {
        Rng::new(self.next_u64())
    }
}
