//! Value types the automata are instantiated with.
use daachorse::{CharwiseDoubleArrayAhoCorasick, DoubleArrayAhoCorasick, Empty, Serializable};

pub trait Val: Copy + std::fmt::Debug + Serializable + TryFrom<usize> + Send + Sync + 'static {
    const NAME: &'static str;
    fn show(&self) -> String;
    /// largest input position convertible to the type, capped to i32::MAX (TLC integers)
    fn max_index() -> u64;
    /// 0, MIN, MAX, a small repeated value, or a value derived from k
    fn special(k: u64) -> Self;
    fn eq_b(a: &DoubleArrayAhoCorasick<Self>, b: &DoubleArrayAhoCorasick<Self>) -> bool;
    fn eq_c(a: &CharwiseDoubleArrayAhoCorasick<Self>, b: &CharwiseDoubleArrayAhoCorasick<Self>) -> bool;
}

macro_rules! int_val {
    ($t:ty, $name:expr) => {
        impl Val for $t {
            const NAME: &'static str = $name;
            fn show(&self) -> String {
                self.to_string()
            }
            fn max_index() -> u64 {
                let m = <$t>::MAX as u128;
                if m > i32::MAX as u128 {
                    i32::MAX as u64
                } else {
                    m as u64
                }
            }
            fn special(k: u64) -> Self {
                // 0, MIN, MAX, a repeated small value, single high bits at every byte boundary,
                // alternating bit patterns and full-width pseudo-random values (wrapping casts)
                let spread = (u128::from(k) << 64) | u128::from(k.wrapping_mul(0x9e37_79b9_7f4a_7c15));
                match k % 14 {
                    0 => 0,
                    1 => <$t>::MIN,
                    2 => <$t>::MAX,
                    3 | 4 => 5,
                    5 => (1u128 << 7) as $t,
                    6 => (1u128 << 15) as $t,
                    7 => (1u128 << 31) as $t,
                    8 => (1u128 << 63) as $t,
                    9 => (u64::MAX as u128) as $t,
                    10 => 0xaaaa_aaaa_aaaa_aaaa_aaaa_aaaa_aaaa_aaaau128 as $t,
                    11 => (1u128 << 32) as $t,
                    12 => spread as $t,
                    _ => (k / 14 % 100) as $t,
                }
            }
            fn eq_b(a: &DoubleArrayAhoCorasick<Self>, b: &DoubleArrayAhoCorasick<Self>) -> bool {
                a == b
            }
            fn eq_c(
                a: &CharwiseDoubleArrayAhoCorasick<Self>,
                b: &CharwiseDoubleArrayAhoCorasick<Self>,
            ) -> bool {
                a == b
            }
        }
    };
}
int_val!(u8, "u8");
int_val!(u16, "u16");
int_val!(u32, "u32");
int_val!(u64, "u64");
int_val!(u128, "u128");
int_val!(usize, "usize");
int_val!(i8, "i8");
int_val!(i16, "i16");
int_val!(i32, "i32");
int_val!(i64, "i64");
int_val!(i128, "i128");
int_val!(isize, "isize");

impl Val for Empty {
    const NAME: &'static str = "Empty";
    fn show(&self) -> String {
        "Empty".to_string()
    }
    fn max_index() -> u64 {
        i32::MAX as u64
    }
    fn special(_k: u64) -> Self {
        Empty
    }
    // Empty has no PartialEq: compare the serialised images instead.
    fn eq_b(a: &DoubleArrayAhoCorasick<Self>, b: &DoubleArrayAhoCorasick<Self>) -> bool {
        a.serialize() == b.serialize()
    }
    fn eq_c(a: &CharwiseDoubleArrayAhoCorasick<Self>, b: &CharwiseDoubleArrayAhoCorasick<Self>) -> bool {
        a.serialize() == b.serialize()
    }
}

/// A user-defined fixed-width (3 bytes, big-endian) implementation of `Serializable`.
#[derive(Clone, Copy, Debug, PartialEq, Eq, Hash)]
pub struct Tri(pub u32);

impl Serializable for Tri {
    fn serialize_to_vec(&self, dst: &mut Vec<u8>) {
        dst.push((self.0 >> 16) as u8);
        dst.push((self.0 >> 8) as u8);
        dst.push(self.0 as u8);
    }
    fn deserialize_from_slice(src: &[u8]) -> (Self, &[u8]) {
        let v = (u32::from(src[0]) << 16) | (u32::from(src[1]) << 8) | u32::from(src[2]);
        (Tri(v), &src[3..])
    }
    fn serialized_bytes() -> usize {
        3
    }
}
impl TryFrom<usize> for Tri {
    type Error = ();
    fn try_from(x: usize) -> Result<Self, ()> {
        if x <= 0x00ff_ffff {
            Ok(Tri(x as u32))
        } else {
            Err(())
        }
    }
}
impl Val for Tri {
    const NAME: &'static str = "Tri";
    fn show(&self) -> String {
        self.0.to_string()
    }
    fn max_index() -> u64 {
        0x00ff_ffff
    }
    fn special(k: u64) -> Self {
        match k % 4 {
            0 => Tri(0),
            1 => Tri(0x00ff_ffff),
            2 => Tri(5),
            _ => Tri((k / 4 % 1000) as u32),
        }
    }
    fn eq_b(a: &DoubleArrayAhoCorasick<Self>, b: &DoubleArrayAhoCorasick<Self>) -> bool {
        a == b
    }
    fn eq_c(a: &CharwiseDoubleArrayAhoCorasick<Self>, b: &CharwiseDoubleArrayAhoCorasick<Self>) -> bool {
        a == b
    }
}

/// A user-defined 4-byte big-endian value: as wide as its in-memory form, but not its image.
#[derive(Clone, Copy, Debug, PartialEq, Eq, Hash)]
pub struct Be32(pub u32);
impl Serializable for Be32 {
    fn serialize_to_vec(&self, dst: &mut Vec<u8>) {
        dst.extend_from_slice(&self.0.to_be_bytes());
    }
    fn deserialize_from_slice(src: &[u8]) -> (Self, &[u8]) {
        (Be32(u32::from_be_bytes(src[..4].try_into().unwrap())), &src[4..])
    }
    fn serialized_bytes() -> usize {
        4
    }
}
impl TryFrom<usize> for Be32 {
    type Error = ();
    fn try_from(x: usize) -> Result<Self, ()> {
        u32::try_from(x).map(Be32).map_err(|_| ())
    }
}
impl Val for Be32 {
    const NAME: &'static str = "Be32";
    fn show(&self) -> String {
        self.0.to_string()
    }
    fn max_index() -> u64 {
        i32::MAX as u64
    }
    fn special(k: u64) -> Self {
        Be32(<u32 as Val>::special(k))
    }
    fn eq_b(a: &DoubleArrayAhoCorasick<Self>, b: &DoubleArrayAhoCorasick<Self>) -> bool {
        a == b
    }
    fn eq_c(a: &CharwiseDoubleArrayAhoCorasick<Self>, b: &CharwiseDoubleArrayAhoCorasick<Self>) -> bool {
        a == b
    }
}

/// A user-defined two-field value written in the opposite field order (8 bytes, no padding).
#[derive(Clone, Copy, Debug, PartialEq, Eq, Hash)]
pub struct Pair32 {
    pub a: u32,
    pub b: u32,
}
impl Serializable for Pair32 {
    fn serialize_to_vec(&self, dst: &mut Vec<u8>) {
        dst.extend_from_slice(&self.b.to_le_bytes());
        dst.extend_from_slice(&self.a.to_le_bytes());
    }
    fn deserialize_from_slice(src: &[u8]) -> (Self, &[u8]) {
        let b = u32::from_le_bytes(src[..4].try_into().unwrap());
        let a = u32::from_le_bytes(src[4..8].try_into().unwrap());
        (Pair32 { a, b }, &src[8..])
    }
    fn serialized_bytes() -> usize {
        8
    }
}
impl TryFrom<usize> for Pair32 {
    type Error = ();
    fn try_from(x: usize) -> Result<Self, ()> {
        u32::try_from(x).map(|a| Pair32 { a, b: !a }).map_err(|_| ())
    }
}
impl Val for Pair32 {
    const NAME: &'static str = "Pair32";
    fn show(&self) -> String {
        // the input position is field a (b is its complement for bare patterns)
        if self.b == !self.a {
            self.a.to_string()
        } else {
            format!("{}:{}", self.a, self.b)
        }
    }
    fn max_index() -> u64 {
        i32::MAX as u64
    }
    fn special(k: u64) -> Self {
        Pair32 { a: <u32 as Val>::special(k), b: <u32 as Val>::special(k / 3 + 1) }
    }
    fn eq_b(a: &DoubleArrayAhoCorasick<Self>, b: &DoubleArrayAhoCorasick<Self>) -> bool {
        a == b
    }
    fn eq_c(a: &CharwiseDoubleArrayAhoCorasick<Self>, b: &CharwiseDoubleArrayAhoCorasick<Self>) -> bool {
        a == b
    }
}

pub const ALL_TYPES: &[&str] = &[
    "u8", "u16", "u32", "u64", "u128", "usize", "i8", "i16", "i32", "i64", "i128", "isize", "Empty", "Tri",
    "Be32", "Pair32",
];

/// Calls `$f::<T>($($a),*)` for the value type named `$name`.
#[macro_export]
macro_rules! with_val {
    ($name:expr, $f:ident ( $($a:expr),* )) => {
        match $name {
            "u8" => $f::<u8>($($a),*),
            "u16" => $f::<u16>($($a),*),
            "u32" => $f::<u32>($($a),*),
            "u64" => $f::<u64>($($a),*),
            "u128" => $f::<u128>($($a),*),
            "usize" => $f::<usize>($($a),*),
            "i8" => $f::<i8>($($a),*),
            "i16" => $f::<i16>($($a),*),
            "i32" => $f::<i32>($($a),*),
            "i64" => $f::<i64>($($a),*),
            "i128" => $f::<i128>($($a),*),
            "isize" => $f::<isize>($($a),*),
            "Empty" => $f::<daachorse::Empty>($($a),*),
            "Tri" => $f::<$crate::val::Tri>($($a),*),
            "Be32" => $f::<$crate::val::Be32>($($a),*),
            "Pair32" => $f::<$crate::val::Pair32>($($a),*),
            other => panic!("unknown value type {other}"),
        }
    };
}
