//! spec -> code replay (filled in later)
use std::collections::HashMap;
pub fn main(_a: &HashMap<String, String>) -> i32 { 2 }
