//! spec -> code: executes behaviours printed by TLC (spec/Replay.tla) on the real API and
//! compares the projected state after every action.
//!
//! A behaviour is over abstract labels 0,1,2..; it is replayed under several label maps
//! (bytes incl. 0x00/0x01/0xFF for the byte-wise automaton, characters of UTF-8 widths 1-4 for
//! the char-wise one, offsets scaled by the widths), both construction entry points, two
//! num_free_blocks settings, slice and byte-iterator entry points.
use std::collections::HashMap;
use std::io::{BufRead, BufReader, Seek, SeekFrom, Write};
use std::panic::{catch_unwind, AssertUnwindSafe};
use std::rc::Rc;

use serde_json::{json, Value};

use crate::pma::*;

struct LabelMap {
    name: &'static str,
    var: Var,
    map: [u32; 4],
}

const MAPS: &[LabelMap] = &[
    LabelMap { name: "bytes-00-01-ff", var: Var::B, map: [0x00, 0x01, 0xff, 0x80] },
    LabelMap { name: "bytes-61-ff-80", var: Var::B, map: [0x61, 0xff, 0x80, 0x00] },
    LabelMap { name: "chars-w1-w2-w3", var: Var::C, map: [0x61, 0xe9, 0x4e16, 0x1f600] },
    LabelMap { name: "chars-w3-w4-w1", var: Var::C, map: [0x4e16, 0x1f600, 0x00, 0x7ff] },
];

fn width(var: Var, l: u32) -> usize {
    match var {
        Var::B => 1,
        Var::C => char::from_u32(l).unwrap().len_utf8(),
    }
}

fn seq_of(v: &Value) -> Vec<u32> {
    v.as_array().map_or(vec![], |a| a.iter().map(|x| x.as_u64().unwrap() as u32).collect())
}

// values used for the pattern/value entry point: repeated values, 0 and MAX
const VALS: [u64; 6] = [5, 5, 0, u64::MAX, 7, 5];

struct Out {
    mismatches: Vec<Value>,
    executions: u64,
}

fn method_prop(method: &str, kind: &str) -> &'static str {
    match (method, kind) {
        ("ov", _) => "C01",
        ("find", _) => "C02",
        ("nosuf", _) => "C05",
        ("lm", "LL") => "C03",
        _ => "C04",
    }
}

type Ms = Vec<(i64, i64, String)>;

/// One behaviour under every label map.  Absolute comparisons (against the results the
/// specification computed) decide C01-C06, C13, C15; the relational properties compare the real
/// code with itself: C08 char-wise vs byte-wise (in label space), C09 restored vs original,
/// C11 other num_free_blocks vs default, C12 iterator entry vs slice entry, C14 second run vs first.
fn replay_search(idx: u64, b: &Value, prop: &str, out: &mut Out) {
    let kind_s = b["kind"].as_str().unwrap();
    let kind = Kind::parse(kind_s);
    let pats: Vec<Vec<u32>> = b["pats"].as_array().unwrap().iter().map(seq_of).collect();
    let hay = seq_of(&b["hay"]);
    let with_values = idx % 2 == 1;
    let nfb: u32 = if (idx / 2) % 2 == 0 { 1 } else { 16 };
    let valstr = |i: u64| -> String {
        if with_values {
            VALS[(i as usize - 1) % VALS.len()].to_string()
        } else {
            (i - 1).to_string()
        }
    };
    // results of the slice entry per map and method, in label space, for C08
    let mut label_space: Vec<HashMap<String, Option<Ms>>> = vec![];
    for lm in MAPS.iter() {
        let mut this_map: HashMap<String, Option<Ms>> = HashMap::new();
        let cpats: Vec<Pat> = pats.iter().map(|p| p.iter().map(|&l| lm.map[l as usize]).collect()).collect();
        let chay: Vec<u32> = hay.iter().map(|&l| lm.map[l as usize]).collect();
        let mut off = vec![0usize];
        let mut hbytes = vec![];
        for &l in &chay {
            off.push(off.last().unwrap() + width(lm.var, l));
            hbytes.extend_from_slice(&pat_bytes(lm.var, &vec![l]));
        }
        let hbytes = Rc::new(hbytes);
        let to_label = |p: i64| -> Option<i64> { off.iter().position(|&o| o as i64 == p).map(|x| x as i64) };
        let spec = BuildSpec {
            var: lm.var,
            kind,
            entry: if with_values { "with_values" } else { "new" },
            via_builder: true,
            nfb,
            pats: cpats,
        };
        let vals: Vec<u64> = (0..pats.len()).map(|i| VALS[i % VALS.len()]).collect();
        out.executions += 1;
        let (outcome, pma) = build::<u64>(&spec, &vals);
        let cfg = json!({"map": lm.name, "var": lm.var.s(), "entry": spec.entry, "nfb": nfb});
        let Some(pma) = pma else {
            out.mismatches.push(json!({"idx": idx, "tags": ["C10", "C01", "C02", "C03", "C04", "C05", "C06", "C08", "C09", "C11", "C12", "C13", "C14", "C15"],
                "what": "build of a valid collection failed", "cfg": cfg, "got": outcome, "behaviour": b}));
            label_space.push(this_map);
            continue;
        };
        let ns = b["num_states"].as_u64().unwrap() as usize;
        if pma.num_states() != ns {
            out.mismatches.push(json!({"idx": idx, "tags": ["C15"], "what": "num_states", "cfg": cfg,
                "expected": ns, "got": pma.num_states(), "behaviour": b}));
        }
        let restored = if prop == "C09" {
            let bytes = pma.serialize();
            Some(Pma::<u64>::deserialize(lm.var, &bytes).0)
        } else {
            None
        };
        let other_nfb = if prop == "C11" {
            let spec2 = BuildSpec { nfb: if nfb == 16 { 2 } else { 16 }, ..spec.clone() };
            out.executions += 1;
            build::<u64>(&spec2, &vals).1
        } else {
            None
        };
        let cap = (hbytes.len() + 1) * 64 + 16;
        for method in kind.methods() {
            let exp: Ms = b["res"][*method]
                .as_array()
                .unwrap()
                .iter()
                .map(|m| {
                    let m = m.as_array().unwrap();
                    (
                        off[m[0].as_u64().unwrap() as usize] as i64,
                        off[m[1].as_u64().unwrap() as usize] as i64,
                        valstr(m[2].as_u64().unwrap()),
                    )
                })
                .collect();
            // ---- slice entry: absolute comparison ------------------------------------------
            out.executions += 1;
            let (ms, _pulled, probes, hops, capped) = pma.search_all(method, "slice", &hbytes, cap);
            let got: Ms = ms.iter().map(|m| (m.s, m.e, m.v.clone())).collect();
            let ls: Option<Ms> = got
                .iter()
                .map(|(s, e, v)| Some((to_label(*s)?, to_label(*e)?, v.clone())))
                .collect();
            this_map.insert((*method).to_string(), ls);
            if got != exp || capped {
                let spans_ok = got.len() == exp.len() && got.iter().zip(exp.iter()).all(|(g, e)| g.0 == e.0 && g.1 == e.1);
                let mut tags = vec![method_prop(method, kind_s)];
                if spans_ok {
                    tags = vec!["C06"];
                }
                if capped {
                    tags.push("C13");
                }
                out.mismatches.push(json!({"idx": idx, "tags": tags, "what": "search result",
                    "cfg": cfg, "method": method, "entry": "slice",
                    "expected": exp, "got": got, "capped": capped, "behaviour": b}));
            }
            if kind == Kind::Std {
                let n = hbytes.len() as u64;
                let linear = probes <= 2 * n && hops <= n && ms.iter().all(|m| m.probes <= 2 * m.e as u64);
                if !linear {
                    out.mismatches.push(json!({"idx": idx, "tags": ["C13"], "what": "2n bound",
                        "cfg": cfg, "method": method, "probes": probes, "hops": hops, "n": n,
                        "behaviour": b}));
                }
            }
            // ---- C14: a second run returns what the first returned ---------------------------
            if prop == "C14" {
                out.executions += 1;
                let (ms2, ..) = pma.search_all(method, "slice", &hbytes, cap);
                let got2: Ms = ms2.iter().map(|m| (m.s, m.e, m.v.clone())).collect();
                if got2 != got {
                    out.mismatches.push(json!({"idx": idx, "tags": ["C14"], "what": "repeated search differs",
                        "cfg": cfg, "method": method, "first": got, "second": got2, "behaviour": b}));
                }
            }
            // ---- C12: iterator entry = slice entry, lazily -----------------------------------
            if *method != "lm" {
                out.executions += 1;
                let (msi, pulled, ..) = pma.search_all(method, "iter", &hbytes, cap);
                let goti: Ms = msi.iter().map(|m| (m.s, m.e, m.v.clone())).collect();
                if goti != got {
                    out.mismatches.push(json!({"idx": idx, "tags": ["C12"], "what": "iterator entry differs from slice entry",
                        "cfg": cfg, "method": method, "slice": got, "iter": goti, "behaviour": b}));
                }
                let lazy = msi.iter().all(|m| m.pulled == m.e) && pulled == hbytes.len() as i64;
                if !lazy {
                    out.mismatches.push(json!({"idx": idx, "tags": ["C12"], "what": "laziness",
                        "cfg": cfg, "method": method,
                        "got": msi.iter().map(|m| json!([m.e, m.pulled])).collect::<Vec<_>>(),
                        "final_pulled": pulled, "behaviour": b}));
                }
            }
            // ---- C09: the restored automaton answers like the original ------------------------
            if let Some(r) = &restored {
                out.executions += 1;
                let (msr, ..) = r.search_all(method, "slice", &hbytes, cap);
                let gotr: Ms = msr.iter().map(|m| (m.s, m.e, m.v.clone())).collect();
                if gotr != got {
                    out.mismatches.push(json!({"idx": idx, "tags": ["C09"], "what": "restored automaton differs",
                        "cfg": cfg, "method": method, "original": got, "restored": gotr, "behaviour": b}));
                }
            }
            // ---- C11: another num_free_blocks answers like this one ---------------------------
            if let Some(o) = &other_nfb {
                out.executions += 1;
                let (mso, ..) = o.search_all(method, "slice", &hbytes, cap);
                let goto: Ms = mso.iter().map(|m| (m.s, m.e, m.v.clone())).collect();
                if goto != got || o.num_states() != pma.num_states() {
                    out.mismatches.push(json!({"idx": idx, "tags": ["C11"], "what": "num_free_blocks changes results",
                        "cfg": cfg, "method": method, "this": got, "other": goto, "behaviour": b}));
                }
            }
        }
        label_space.push(this_map);
    }
    // ---- C08: char-wise = byte-wise, offsets on character boundaries ---------------------------
    for (mi, lm) in MAPS.iter().enumerate() {
        if lm.var != Var::C {
            continue;
        }
        for method in kind.methods() {
            let c = label_space[mi].get(*method);
            let bref = label_space[0].get(*method);
            if let (Some(c), Some(Some(bref))) = (c, bref) {
                let ok = match c {
                    None => false, // an offset inside a character
                    Some(c) => c == bref,
                };
                if !ok {
                    out.mismatches.push(json!({"idx": idx, "tags": ["C08"], "what": "char-wise differs from byte-wise (label space)",
                        "map": lm.name, "method": method, "bytewise": bref, "charwise": c, "behaviour": b}));
                }
            }
        }
    }
}

/// A history of API calls (spec/Daachorse.tla): several automata, several live iterators with
/// interleaved next() calls, serialisation round trips at arbitrary points.  Every next() result
/// and the number of bytes pulled from the source are compared with what the specification
/// recorded.  Replayed under every label map.
fn replay_history(idx: u64, b: &Value, out: &mut Out) {
    let ops = b["ops"].as_array().unwrap();
    for lm in MAPS.iter() {
        // automata live as long as the iterators borrowing them: leak them (short-lived process)
        let mut autos: HashMap<u64, &'static Pma<u64>> = HashMap::new();
        let mut kinds: HashMap<u64, String> = HashMap::new();
        struct Live {
            h: u64,
            it: StepIter<'static, u64>,
            off: Vec<usize>,
            method: String,
            kind: String,
            entry: String,
        }
        let mut iters: HashMap<u64, Live> = HashMap::new();
        for (k, op) in ops.iter().enumerate() {
            out.executions += 1;
            match op["op"].as_str().unwrap() {
                "build" => {
                    let pats: Vec<Pat> = op["pats"].as_array().unwrap().iter()
                        .map(|p| seq_of(p).iter().map(|&l| lm.map[l as usize]).collect()).collect();
                    let kind = Kind::parse(op["kind"].as_str().unwrap());
                    let spec = BuildSpec { var: lm.var, kind, entry: "new", via_builder: true,
                                           nfb: if k % 2 == 0 { 1 } else { 16 }, pats };
                    let (outcome, pma) = build::<u64>(&spec, &[]);
                    match pma {
                        Some(p) => {
                            autos.insert(op["h"].as_u64().unwrap(), Box::leak(Box::new(p)));
                            kinds.insert(op["h"].as_u64().unwrap(), op["kind"].as_str().unwrap().to_string());
                        }
                        None => {
                            out.mismatches.push(json!({"idx": idx, "tags": ["C10"], "what": "build of a valid collection failed",
                                "map": lm.name, "got": outcome, "behaviour": b}));
                            return;
                        }
                    }
                }
                "roundtrip" => {
                    let src = autos[&op["h"].as_u64().unwrap()];
                    let mut bytes = src.serialize();
                    let n = bytes.len();
                    bytes.extend_from_slice(&[9, 8, 7]);
                    let (p2, rest) = Pma::<u64>::deserialize(lm.var, &bytes);
                    if rest != [9, 8, 7] || !src.same(&p2) || p2.serialize()[..] != bytes[..n] {
                        out.mismatches.push(json!({"idx": idx, "tags": ["C09"], "what": "round trip: not equal / wrong remainder / different bytes",
                            "map": lm.name, "step": k, "behaviour": b}));
                    }
                    let k0 = kinds[&op["h"].as_u64().unwrap()].clone();
                    autos.insert(op["h2"].as_u64().unwrap(), Box::leak(Box::new(p2)));
                    kinds.insert(op["h2"].as_u64().unwrap(), k0);
                }
                "clone" => {
                    let src = autos[&op["h"].as_u64().unwrap()];
                    let c = src.clone_pma();
                    if !src.same(&c) || c.serialize() != src.serialize() {
                        out.mismatches.push(json!({"idx": idx, "tags": ["C14"], "what": "a clone differs from its source",
                            "map": lm.name, "step": k, "behaviour": b}));
                    }
                    let k0 = kinds[&op["h"].as_u64().unwrap()].clone();
                    autos.insert(op["h2"].as_u64().unwrap(), Box::leak(Box::new(c)));
                    kinds.insert(op["h2"].as_u64().unwrap(), k0);
                }
                "clone_from" => {
                    // the specification enables this step only when no live iterator borrows the target
                    let (d, s0) = (op["d"].as_u64().unwrap(), op["s"].as_u64().unwrap());
                    assert!(iters.values().all(|l| l.h != d), "replayer: clone_from on a borrowed automaton");
                    let src = autos[&s0];
                    // the target is rebuilt in place from an owned copy of the leaked automaton
                    let mut victim = autos[&d].clone_pma();
                    victim.clone_from_pma(src);
                    if !src.same(&victim) || victim.serialize() != src.serialize() {
                        out.mismatches.push(json!({"idx": idx, "tags": ["C14"], "what": "clone_from: target differs from its source",
                            "map": lm.name, "step": k, "behaviour": b}));
                    }
                    autos.insert(d, Box::leak(Box::new(victim)));
                    kinds.insert(d, kinds[&s0].clone());
                }
                "iter" => {
                    let h = op["h"].as_u64().unwrap();
                    let chay: Vec<u32> = seq_of(&op["hay"]).iter().map(|&l| lm.map[l as usize]).collect();
                    let mut off = vec![0usize];
                    let mut hbytes = vec![];
                    for &l in &chay {
                        off.push(off.last().unwrap() + width(lm.var, l));
                        hbytes.extend_from_slice(&pat_bytes(lm.var, &vec![l]));
                    }
                    let hay: &'static Rc<Vec<u8>> = Box::leak(Box::new(Rc::new(hbytes)));
                    let method = op["method"].as_str().unwrap().to_string();
                    let entry = op["entry"].as_str().unwrap().to_string();
                    let it = autos[&h].iter(&method, &entry, hay);
                    iters.insert(op["it"].as_u64().unwrap(), Live { h, it, off, method, kind: kinds[&h].clone(), entry });
                }
                "arrive" => {
                    // more bytes of a streaming source have arrived (offset in label units)
                    let l = iters.get_mut(&op["it"].as_u64().unwrap()).unwrap();
                    let n = l.off[op["avail"].as_u64().unwrap() as usize];
                    l.it.limit.as_ref().expect("stream iterator").set(n);
                }
                "next" => {
                    let l = iters.get_mut(&op["it"].as_u64().unwrap()).unwrap();
                    let (m, pulled, _, _) = l.it.step();
                    let got: Vec<(i64, i64, String)> = m.iter().map(|m| (m.s, m.e, m.v.clone())).collect();
                    let exp: Vec<(i64, i64, String)> = op["res"].as_array().unwrap().iter().map(|m| {
                        let m = m.as_array().unwrap();
                        (l.off[m[0].as_u64().unwrap() as usize] as i64, l.off[m[1].as_u64().unwrap() as usize] as i64,
                         (m[2].as_u64().unwrap() - 1).to_string())
                    }).collect();
                    if got != exp {
                        out.mismatches.push(json!({"idx": idx, "tags": [method_prop(&l.method, &l.kind), "C12", "C14"],
                            "what": "next() in an interleaved history", "map": lm.name, "step": k,
                            "expected": exp, "got": got, "behaviour": b}));
                        return;
                    }
                    if l.entry == "iter" || l.entry == "stream" {
                        let exp_pulled = l.off[op["pulled"].as_u64().unwrap() as usize] as i64;
                        if pulled != exp_pulled {
                            out.mismatches.push(json!({"idx": idx, "tags": ["C12"], "what": "bytes pulled from the source",
                                "map": lm.name, "step": k, "expected": exp_pulled, "got": pulled, "behaviour": b}));
                            return;
                        }
                    }
                }
                "drain" => {
                    // the iterator is consumed by an internal-iteration method of the Iterator trait
                    let l = iters.remove(&op["it"].as_u64().unwrap()).unwrap();
                    let mode = op["mode"].as_str().unwrap();
                    let exp: Vec<(i64, i64, String)> = op["res"].as_array().unwrap().iter().map(|m| {
                        let m = m.as_array().unwrap();
                        (l.off[m[0].as_u64().unwrap() as usize] as i64, l.off[m[1].as_u64().unwrap() as usize] as i64,
                         (m[2].as_u64().unwrap() - 1).to_string())
                    }).collect();
                    let (ms, n, last) = l.it.drain(mode);
                    let got: Vec<(i64, i64, String)> = ms.iter().map(|m| (m.s, m.e, m.v.clone())).collect();
                    let ok = match mode {
                        "fold" | "for_each" => got == exp,
                        "count" => n == exp.len() as i64,
                        _ => last.map(|m| (m.s, m.e, m.v)) == exp.last().cloned(),
                    };
                    if !ok {
                        out.mismatches.push(json!({"idx": idx, "tags": [method_prop(&l.method, &l.kind), "C12", "C14"],
                            "what": "internal iteration (fold / for_each / count / last) in an interleaved history",
                            "map": lm.name, "step": k, "mode": mode, "expected": exp, "got": got, "n": n, "behaviour": b}));
                        return;
                    }
                }
                _ => {}
            }
        }
    }
}

fn replay_build(idx: u64, b: &Value, out: &mut Out) {
    let kind = Kind::parse(b["kind"].as_str().unwrap());
    let pats: Vec<Vec<u32>> = b["pats"].as_array().unwrap().iter().map(seq_of).collect();
    let allowed: Vec<String> =
        b["allowed"].as_array().unwrap().iter().map(|x| x.as_str().unwrap().to_string()).collect();
    for lm in MAPS {
        let cpats: Vec<Pat> = pats.iter().map(|p| p.iter().map(|&l| lm.map[l as usize]).collect()).collect();
        for (entry, via_builder) in [("new", true), ("with_values", true), ("new", false), ("with_values", false)] {
            if !via_builder && kind != Kind::Std {
                continue;
            }
            let spec = BuildSpec { var: lm.var, kind, entry, via_builder, nfb: if via_builder { 2 } else { 16 }, pats: cpats.clone() };
            let vals: Vec<u64> = (0..pats.len()).map(|i| VALS[i % VALS.len()]).collect();
            out.executions += 1;
            let (outcome, _) = build::<u64>(&spec, &vals);
            if !allowed.contains(&outcome) {
                out.mismatches.push(json!({"idx": idx, "tags": ["C10"], "what": "construction outcome",
                    "cfg": {"map": lm.name, "var": lm.var.s(), "entry": entry, "api": if via_builder {"builder"} else {"type"}},
                    "expected_one_of": allowed, "got": outcome, "behaviour": b}));
            }
        }
    }
}

fn child(a: &HashMap<String, String>) -> i32 {
    std::panic::set_hook(Box::new(|_| {}));
    let from: u64 = a["from"].parse().unwrap();
    let prop = a.get("prop").cloned().unwrap_or_default();
    let f = std::fs::File::open(&a["in"]).unwrap();
    let mut outf = std::fs::OpenOptions::new().append(true).create(true).open(&a["out"]).unwrap();
    let mut cur = std::fs::OpenOptions::new().write(true).create(true).open(format!("{}.cur", a["out"])).unwrap();
    let mut out = Out { mismatches: vec![], executions: 0 };
    let mut n = 0u64;
    daachorse::verif_hooks::set_hop_limit(1_000_000);
    for (idx, line) in BufReader::new(f).lines().map_while(Result::ok).enumerate() {
        let idx = idx as u64;
        if idx < from {
            continue;
        }
        cur.seek(SeekFrom::Start(0)).unwrap();
        write!(cur, "{:020}", idx).unwrap();
        let b: Value = match serde_json::from_str(&line) {
            Ok(v) => v,
            Err(_) => continue,
        };
        n += 1;
        let r = catch_unwind(AssertUnwindSafe(|| match b["t"].as_str() {
            Some("search") => {
                if prop != "C10" {
                    replay_search(idx, &b, &prop, &mut out)
                } else {
                    // a valid collection must build
                    replay_build(idx, &json!({"kind": b["kind"], "pats": b["pats"], "allowed": ["ok"]}), &mut out)
                }
            }
            Some("build") => {
                if matches!(prop.as_str(), "C10" | "") {
                    replay_build(idx, &b, &mut out)
                }
            }
            Some("history") => replay_history(idx, &b, &mut out),
            _ => {}
        }));
        if let Err(e) = r {
            out.mismatches.push(json!({"idx": idx, "tags": ["*"], "what": format!("panic: {}", panic_msg(e)), "behaviour": b}));
        }
        for m in out.mismatches.drain(..) {
            writeln!(outf, "{}", m).unwrap();
        }
    }
    writeln!(outf, "{}", json!({"done": true, "behaviours": n, "executions": out.executions})).unwrap();
    0
}

pub fn main(a: &HashMap<String, String>) -> i32 {
    if a.contains_key("from") {
        return child(a);
    }
    let _ = std::fs::remove_file(&a["out"]);
    let exe = std::env::current_exe().unwrap();
    let mut from = 0u64;
    let mut crashes = 0;
    loop {
        let mut args = vec!["replay".to_string(), "--in".into(), a["in"].clone(), "--out".into(), a["out"].clone(), "--from".into(), from.to_string()];
        if let Some(p) = a.get("prop") {
            args.push("--prop".into());
            args.push(p.clone());
        }
        let st = std::process::Command::new(&exe).args(&args).stderr(std::process::Stdio::piped()).output().expect("spawn");
        if st.status.success() {
            return 0;
        }
        crashes += 1;
        let cur: u64 = std::fs::read_to_string(format!("{}.cur", a["out"])).ok().and_then(|s| s.trim().parse().ok()).unwrap_or(from);
        let stderr = String::from_utf8_lossy(&st.stderr);
        let why: String = stderr.lines().rev().take(4).collect::<Vec<_>>().into_iter().rev().collect::<Vec<_>>().join(" | ");
        let line = BufReader::new(std::fs::File::open(&a["in"]).unwrap()).lines().nth(cur as usize).and_then(Result::ok).unwrap_or_default();
        let mut outf = std::fs::OpenOptions::new().append(true).create(true).open(&a["out"]).unwrap();
        writeln!(outf, "{}", json!({"idx": cur, "tags": ["*"], "what": format!("abort: status {:?}: {}", st.status.code(), why),
            "behaviour": serde_json::from_str::<Value>(&line).unwrap_or(Value::Null)})).unwrap();
        from = cur + 1;
        if crashes > 100 {
            return 2;
        }
    }
}
