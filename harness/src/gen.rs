//! Input generators: alphabets, pattern collections, haystacks.
use crate::pma::{Pat, Var};
use crate::rng::Rng;

pub struct Alpha {
    /// labels patterns are drawn from
    pub pat: Vec<u32>,
    /// labels that occur only in haystacks (unmapped characters / unused bytes)
    pub extra: Vec<u32>,
}

const BYTE_POOLS: &[&[u32]] = &[
    &[0, 1],
    &[0, 1, 255],
    &[97, 98, 99],
    &[0, 1, 2, 0x7f, 0x80, 0xfe, 0xff],
    &[0x61, 0xc3, 0xa9, 0xe4, 0xb8, 0x96],
    &[1, 0, 254, 255, 128],
];
const BYTE_EXTRA: &[u32] = &[0, 1, 2, 0x41, 0x7f, 0x80, 0xff];

// 1-, 2-, 3- and 4-byte characters
const CHAR_POOLS: &[&[u32]] = &[
    &[0x61, 0x62],
    &[0x61, 0xe9, 0x4e16],
    &[0x61, 0xe9, 0x4e16, 0x1f600],
    &[0x0, 0x1, 0x7f, 0x80, 0x7ff, 0x800, 0xffff, 0x10000, 0x10ffff],
    &[0x3042, 0x3044, 0x3046, 0x4e16, 0x754c],
    &[0x1f600, 0x1f601, 0x61],
    &[0xff21, 0xff22, 0xff23],
    // characters that decoders, prefilters and "invalid" markers like to treat specially: REPLACEMENT
    // CHARACTER, byte order mark, non-characters, the last code point of each encoded width
    &[0xfffd, 0x61, 0xe9],
    &[0xfffd, 0xfeff, 0xfffe, 0xffff],
    &[0x7f, 0x7ff, 0xfffd, 0x62],
    &[0xfffd, 0x10000, 0x61],
];
// characters absent from patterns: below, inside and above typical mapper tables
const CHAR_EXTRA: &[u32] =
    &[0x0, 0x7a, 0x62, 0xe8, 0x3043, 0x4e17, 0xd7ff, 0xe000, 0xfffd, 0x10000, 0x1f602, 0x10ffff];

pub fn pick_alphabet(rng: &mut Rng, var: Var) -> Alpha {
    match var {
        Var::B => {
            let pat = rng.pick(BYTE_POOLS).to_vec();
            let extra = BYTE_EXTRA.iter().copied().filter(|x| !pat.contains(x)).collect();
            Alpha { pat, extra }
        }
        Var::C => {
            let pat = rng.pick(CHAR_POOLS).to_vec();
            let mut extra: Vec<u32> = alias_extras(&pat);
            extra.extend(CHAR_EXTRA.iter().copied().filter(|x| !pat.contains(x)));
            Alpha { pat, extra }
        }
    }
}

/// Characters that occur in no pattern but are congruent to a pattern character modulo the size
/// of a power-of-two table covering the pattern characters, and the characters around that size:
/// an index computed by masking or wrapping instead of a bounds check would alias them.
pub fn alias_extras(pat: &[u32]) -> Vec<u32> {
    let max = pat.iter().copied().max().unwrap_or(0);
    let t = (max + 1).next_power_of_two();
    let mut out = vec![];
    for &p in pat.iter().take(4) {
        for k in 1..=2u32 {
            let h = p + k * t;
            if char::from_u32(h).is_some() && !pat.contains(&h) && !out.contains(&h) {
                out.push(h);
            }
        }
    }
    for h in [max + 1, t.saturating_sub(1), t, t + 1] {
        if char::from_u32(h).is_some() && !pat.contains(&h) && !out.contains(&h) {
            out.push(h);
        }
    }
    out
}

/// larger alphabets for dictionaries spanning many blocks
pub fn dict_alphabet(rng: &mut Rng, var: Var) -> Alpha {
    let n = rng.range(5, 40);
    let mut pat: Vec<u32> = vec![];
    match var {
        Var::B => {
            if rng.chance(1, 3) {
                // consecutive low byte values 0..n (the labels the crate's own unit tests use):
                // BASE values and slot indices are then of the same magnitude
                let pat: Vec<u32> = (0..n as u32).collect();
                let extra = vec![n as u32, 0x80, 0xff];
                return Alpha { pat, extra };
            }
            for &b in &[0u32, 1, 255] {
                if rng.chance(1, 2) {
                    pat.push(b);
                }
            }
            while pat.len() < n {
                let b = rng.below(256) as u32;
                if !pat.contains(&b) {
                    pat.push(b);
                }
            }
            let extra = (0..256u32).filter(|x| !pat.contains(x)).take(5).collect();
            Alpha { pat, extra }
        }
        Var::C => {
            let bases: [u32; 5] = [0x61, 0xc0, 0x3041, 0x4e00, 0x1f600];
            while pat.len() < n {
                let c = bases[rng.below(bases.len())] + rng.below(48) as u32;
                if char::from_u32(c).is_some() && !pat.contains(&c) {
                    pat.push(c);
                }
            }
            let mut extra: Vec<u32> = alias_extras(&pat);
            extra.extend(CHAR_EXTRA.iter().copied().filter(|x| !pat.contains(x)));
            Alpha { pat, extra }
        }
    }
}

/// `n` distinct non-empty patterns (fewer if the alphabet cannot supply that many)
pub fn gen_patterns(rng: &mut Rng, alpha: &[u32], n: usize, maxlen: usize) -> Vec<Pat> {
    let mut out: Vec<Pat> = vec![];
    let mut seen = std::collections::HashSet::new();
    let mut tries = 0;
    while out.len() < n && tries < n * 50 + 100 {
        tries += 1;
        // extensions and suffixes of existing patterns make fail links and output chains non-trivial
        let p: Pat = if !out.is_empty() && rng.chance(1, 3) {
            let base = out[rng.below(out.len())].clone();
            match rng.below(3) {
                0 => {
                    let mut q = base;
                    q.push(*rng.pick(alpha));
                    q
                }
                1 => {
                    let k = rng.below(base.len());
                    base[k..].to_vec()
                }
                _ => {
                    let mut q = vec![*rng.pick(alpha)];
                    q.extend_from_slice(&base);
                    q
                }
            }
        } else {
            let l = rng.range(1, maxlen);
            (0..l).map(|_| *rng.pick(alpha)).collect()
        };
        if p.is_empty() || p.len() > maxlen + 2 {
            continue;
        }
        if seen.insert(p.clone()) {
            out.push(p);
        }
    }
    out
}

fn push_label(var: Var, out: &mut Vec<u8>, l: u32) {
    match var {
        Var::B => out.push(l as u8),
        Var::C => {
            let mut buf = [0u8; 4];
            out.extend_from_slice(char::from_u32(l).unwrap().encode_utf8(&mut buf).as_bytes());
        }
    }
}

/// haystack of up to `maxlen` labels: random labels, spliced patterns, unmapped labels
pub fn gen_haystack(rng: &mut Rng, var: Var, alpha: &Alpha, maxlen: usize, pats: &[Pat]) -> Vec<u8> {
    let n = rng.range(0, maxlen);
    let mut out = vec![];
    let mut k = 0;
    while k < n {
        let r = rng.below(10);
        if r < 4 && !pats.is_empty() {
            let p = &pats[rng.below(pats.len())];
            for &l in p {
                push_label(var, &mut out, l);
            }
            k += p.len().max(1);
        } else if r >= 8 && !alpha.extra.is_empty() {
            push_label(var, &mut out, *rng.pick(&alpha.extra));
            k += 1;
        } else {
            push_label(var, &mut out, *rng.pick(&alpha.pat));
            k += 1;
        }
    }
    // byte-wise: some haystacks have exactly the length of an inline array type (see Pma::iter_owned)
    if var == Var::B && maxlen >= 8 && rng.chance(1, 3) {
        let n = *rng.pick(&[4usize, 8, 8, 16, 16, 32]);
        if n <= maxlen + 20 {
            while out.len() < n {
                out.push(*rng.pick(&alpha.pat) as u8);
            }
            out.truncate(n);
        }
    }
    out
}

pub fn gen_bytes(rng: &mut Rng, n: usize) -> Vec<u8> {
    (0..n).map(|_| rng.below(256) as u8).collect()
}
