//! vh: verification harness for daachorse (see /verif/DESIGN.md).
//!
//!   vh trace  --prop C01 --tier quick --seed N --count K --out FILE   (parent: isolates crashes)
//!   vh trace-child --prop .. --tier .. --seed N --from I --to K --out FILE
//!   vh replay --in FILE --out FILE
mod gen;
mod pma;
mod replay;
mod rng;
mod trace;
mod val;

use std::collections::HashMap;
use std::fs::OpenOptions;
use std::io::{BufRead, BufReader, Write};

fn args_map(args: &[String]) -> HashMap<String, String> {
    let mut m = HashMap::new();
    let mut i = 0;
    while i < args.len() {
        if let Some(k) = args[i].strip_prefix("--") {
            let v = args.get(i + 1).cloned().unwrap_or_default();
            m.insert(k.to_string(), v);
            i += 2;
        } else {
            i += 1;
        }
    }
    m
}

fn last_reset(path: &str) -> Option<u64> {
    let f = std::fs::File::open(path).ok()?;
    let mut last = None;
    for line in BufReader::new(f).lines().map_while(Result::ok) {
        if line.starts_with("{\"ev\":\"reset\"") || line.contains("\"ev\":\"reset\"") {
            if let Ok(v) = serde_json::from_str::<serde_json::Value>(&line) {
                last = v["sc"].as_u64();
            }
        }
    }
    last
}

/// Runs scenarios in child processes so that an abort (std's unsafe-precondition checks are
/// non-unwinding) is recorded as a `crash` event instead of ending the run.
fn trace_parent(a: &HashMap<String, String>) -> i32 {
    let out = a["out"].clone();
    let count: u64 = a["count"].parse().unwrap();
    let from0: u64 = a.get("from").map_or(0, |x| x.parse().unwrap());
    let _ = std::fs::remove_file(&out);
    let exe = std::env::current_exe().unwrap();
    let mut from = from0;
    let mut crashes = 0;
    while from < from0 + count {
        let st = std::process::Command::new(&exe)
            .args([
                "trace-child", "--prop", &a["prop"], "--tier", &a["tier"], "--seed", &a["seed"],
                "--from", &from.to_string(), "--to", &(from0 + count).to_string(), "--out", &out,
            ])
            .stderr(std::process::Stdio::piped())
            .output()
            .expect("spawn child");
        if st.status.success() {
            break;
        }
        crashes += 1;
        let sc = last_reset(&out).unwrap_or(from);
        let stderr = String::from_utf8_lossy(&st.stderr);
        let why: String = stderr.lines().rev().take(6).collect::<Vec<_>>().into_iter().rev().collect::<Vec<_>>().join(" | ");
        let mut f = OpenOptions::new().append(true).create(true).open(&out).unwrap();
        // the child may have died in the middle of a line
        let ends_nl = std::fs::read(&out).map_or(true, |b| b.last().map_or(true, |&c| c == b'\n'));
        if !ends_nl {
            writeln!(f).unwrap();
        }
        writeln!(
            f,
            "{}",
            serde_json::json!({"ev": "crash", "sc": sc, "why": format!("abort: status {:?}: {}", st.status.code(), why)})
        )
        .unwrap();
        from = sc.max(from) + 1;
        if crashes > 200 {
            eprintln!("vh: too many crashes");
            return 2;
        }
    }
    0
}

fn trace_child(a: &HashMap<String, String>) -> i32 {
    let f = OpenOptions::new().append(true).create(true).open(&a["out"]).unwrap();
    let mut t = trace::Tracer::new(Box::new(std::io::BufWriter::new(f)));
    let seed: u64 = a["seed"].parse().unwrap();
    let from: u64 = a["from"].parse().unwrap();
    let to: u64 = a["to"].parse().unwrap();
    let thorough = a["tier"] == "thorough";
    // keep panic messages of caught panics quiet
    std::panic::set_hook(Box::new(|_| {}));
    // A call of the crate that never returns (a construction loop that stops making progress, a search that the
    // hop limit of the hook does not see) must end the scenario, not the run: a watchdog thread ends this process
    // when one scenario takes longer than the limit; the parent records that as a `crash` event of the scenario.
    // The limit is far above what any scenario takes (the slowest, 66 000 patterns, needs seconds).
    use std::sync::atomic::{AtomicU64, Ordering};
    use std::sync::Arc;
    let limit: u64 = std::env::var("VH_SCENARIO_TIMEOUT").ok().and_then(|x| x.parse().ok())
        .unwrap_or(if std::env::var("VH_LIGHT").is_ok() { 7200 } else { 600 });
    let current = Arc::new(AtomicU64::new(u64::MAX));
    let started = Arc::new(AtomicU64::new(0));
    let t0 = std::time::Instant::now();
    {
        let (current, started) = (current.clone(), started.clone());
        std::thread::spawn(move || loop {
            std::thread::sleep(std::time::Duration::from_secs(2));
            let sc = current.load(Ordering::SeqCst);
            if sc != u64::MAX && t0.elapsed().as_secs().saturating_sub(started.load(Ordering::SeqCst)) > limit {
                eprintln!("watchdog: scenario {sc} still running after {limit} s: a call into the crate does not return (hang)");
                std::process::exit(97);
            }
        });
    }
    for i in from..to {
        started.store(t0.elapsed().as_secs(), Ordering::SeqCst);
        current.store(i, Ordering::SeqCst);
        trace::run_scenario(&mut t, &a["prop"], thorough, seed, i);
    }
    current.store(u64::MAX, Ordering::SeqCst);
    0
}

fn main() {
    let args: Vec<String> = std::env::args().collect();
    if args.len() < 2 {
        eprintln!("usage: vh trace|trace-child|replay ...");
        std::process::exit(2);
    }
    let a = args_map(&args[2..]);
    let code = match args[1].as_str() {
        "trace" => trace_parent(&a),
        "trace-child" => trace_child(&a),
        "replay" => replay::main(&a),
        _ => 2,
    };
    std::process::exit(code);
}
