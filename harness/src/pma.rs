//! Uniform access to both automaton variants of the real crate.
use std::cell::Cell;
use std::panic::{catch_unwind, AssertUnwindSafe};
use std::rc::Rc;

use daachorse::bytewise::verif::{VerifRaw, VerifStep};
use daachorse::{
    CharwiseDoubleArrayAhoCorasick, CharwiseDoubleArrayAhoCorasickBuilder, DoubleArrayAhoCorasick,
    DoubleArrayAhoCorasickBuilder, Match, MatchKind,
};
use serde_json::{json, Value};

use crate::val::Val;

#[derive(Clone, Copy, PartialEq, Eq, Debug)]
pub enum Var {
    B,
    C,
}
impl Var {
    pub fn s(self) -> &'static str {
        match self {
            Var::B => "B",
            Var::C => "C",
        }
    }
    pub fn parse(s: &str) -> Var {
        if s == "C" {
            Var::C
        } else {
            Var::B
        }
    }
}

#[derive(Clone, Copy, PartialEq, Eq, Debug)]
pub enum Kind {
    Std,
    LL,
    LF,
}
impl Kind {
    pub fn s(self) -> &'static str {
        match self {
            Kind::Std => "STD",
            Kind::LL => "LL",
            Kind::LF => "LF",
        }
    }
    pub fn parse(s: &str) -> Kind {
        match s {
            "LL" => Kind::LL,
            "LF" => Kind::LF,
            _ => Kind::Std,
        }
    }
    pub fn mk(self) -> MatchKind {
        match self {
            Kind::Std => MatchKind::Standard,
            Kind::LL => MatchKind::LeftmostLongest,
            Kind::LF => MatchKind::LeftmostFirst,
        }
    }
    pub fn methods(self) -> &'static [&'static str] {
        match self {
            Kind::Std => &["ov", "find", "nosuf"],
            _ => &["lm"],
        }
    }
}

/// A pattern is a sequence of labels: bytes (B) or code points (C).
pub type Pat = Vec<u32>;

pub fn pat_bytes(var: Var, p: &Pat) -> Vec<u8> {
    match var {
        Var::B => p.iter().map(|&x| x as u8).collect(),
        Var::C => pat_string(p).into_bytes(),
    }
}
pub fn pat_string(p: &Pat) -> String {
    p.iter().map(|&x| char::from_u32(x).expect("scalar value")).collect()
}

#[derive(Clone, Debug)]
pub struct BuildSpec {
    pub var: Var,
    pub kind: Kind,
    /// "new" (values = input positions) or "with_values"
    pub entry: &'static str,
    /// true: through the *Builder type; false: through `T::new` / `T::with_values` (nfb = 16)
    pub via_builder: bool,
    pub nfb: u32,
    pub pats: Vec<Pat>,
}

pub enum Pma<V> {
    B(DoubleArrayAhoCorasick<V>),
    C(CharwiseDoubleArrayAhoCorasick<V>),
}

pub fn panic_msg(e: Box<dyn std::any::Any + Send>) -> String {
    if let Some(s) = e.downcast_ref::<&str>() {
        (*s).to_string()
    } else if let Some(s) = e.downcast_ref::<String>() {
        s.clone()
    } else {
        "non-string panic".to_string()
    }
}

fn err_kind(e: &daachorse::errors::DaachorseError) -> String {
    use daachorse::errors::DaachorseError as E;
    match e {
        E::InvalidArgument(_) => "InvalidArgument",
        E::DuplicatePattern(_) => "DuplicatePattern",
        E::AutomatonScale(_) => "AutomatonScale",
        E::InvalidConversion(_) => "InvalidConversion",
    }
    .to_string()
}

/// Builds through the real API; outcome is "ok", an error kind, or "panic: ...".
pub fn build<V: Val>(spec: &BuildSpec, vals: &[V]) -> (String, Option<Pma<V>>) {
    let r = catch_unwind(AssertUnwindSafe(|| match spec.var {
        Var::B => {
            let pats: Vec<Vec<u8>> = spec.pats.iter().map(|p| pat_bytes(Var::B, p)).collect();
            // the collection is handed over in different shapes: owned vectors, borrowed slices,
            // a lazy iterator, boxed slices
            let shape = spec.pats.len() % 4;
            let mk = || DoubleArrayAhoCorasickBuilder::new().match_kind(spec.kind.mk()).num_free_blocks(spec.nfb);
            let r = if spec.entry == "new" {
                if spec.via_builder {
                    match shape {
                        0 => mk().build::<_, _, V>(pats),
                        1 => mk().build::<_, _, V>(pats.iter().map(Vec::as_slice).collect::<Vec<&[u8]>>()),
                        2 => mk().build::<_, _, V>(pats.iter().map(|p| p.as_slice())),
                        _ => mk().build::<_, _, V>(pats.iter().map(|p| p.clone().into_boxed_slice())),
                    }
                } else {
                    DoubleArrayAhoCorasick::<V>::new(pats)
                }
            } else {
                let pv: Vec<(Vec<u8>, V)> = pats.into_iter().zip(vals.iter().copied()).collect();
                if spec.via_builder {
                    match shape {
                        0 => mk().build_with_values(pv),
                        1 => mk().build_with_values(pv.iter().map(|(p, v)| (p.as_slice(), *v))),
                        _ => mk().build_with_values(pv.into_iter().map(|(p, v)| (p.into_boxed_slice(), v))),
                    }
                } else {
                    DoubleArrayAhoCorasick::<V>::with_values(pv)
                }
            };
            r.map(Pma::B)
        }
        Var::C => {
            let pats: Vec<String> = spec.pats.iter().map(pat_string).collect();
            let shape = spec.pats.len() % 4;
            let mk = || {
                CharwiseDoubleArrayAhoCorasickBuilder::new().match_kind(spec.kind.mk()).num_free_blocks(spec.nfb)
            };
            let r = if spec.entry == "new" {
                if spec.via_builder {
                    match shape {
                        0 => mk().build::<_, _, V>(pats),
                        1 => mk().build::<_, _, V>(pats.iter().map(String::as_str).collect::<Vec<&str>>()),
                        2 => mk().build::<_, _, V>(pats.iter().map(|p| p.as_str())),
                        _ => mk().build::<_, _, V>(pats.iter().map(|p| p.clone().into_boxed_str())),
                    }
                } else {
                    CharwiseDoubleArrayAhoCorasick::<V>::new(pats)
                }
            } else {
                let pv: Vec<(String, V)> = pats.into_iter().zip(vals.iter().copied()).collect();
                if spec.via_builder {
                    match shape {
                        0 => mk().build_with_values(pv),
                        1 => mk().build_with_values(pv.iter().map(|(p, v)| (p.as_str(), *v))),
                        _ => mk().build_with_values(pv.into_iter().map(|(p, v)| (p.into_boxed_str(), v))),
                    }
                } else {
                    CharwiseDoubleArrayAhoCorasick::<V>::with_values(pv)
                }
            };
            r.map(Pma::C)
        }
    }));
    match r {
        Ok(Ok(p)) => ("ok".to_string(), Some(p)),
        Ok(Err(e)) => (err_kind(&e), None),
        Err(e) => (format!("panic: {}", panic_msg(e)), None),
    }
}

/// Haystack containers that store their bytes INLINE (moving the container moves the bytes).
#[derive(Clone, Copy)]
pub struct InlineBytes {
    buf: [u8; 64],
    len: usize,
}
impl InlineBytes {
    fn new(b: &[u8]) -> Self {
        let mut buf = [0u8; 64];
        buf[..b.len()].copy_from_slice(b);
        InlineBytes { buf, len: b.len() }
    }
}
impl AsRef<[u8]> for InlineBytes {
    fn as_ref(&self) -> &[u8] {
        &self.buf[..self.len]
    }
}
#[derive(Clone, Copy)]
pub struct InlineStr(InlineBytes);
impl AsRef<str> for InlineStr {
    fn as_ref(&self) -> &str {
        std::str::from_utf8(self.0.as_ref()).expect("harness: valid UTF-8")
    }
}

/// A byte source that can only move forward and counts what was pulled from it.
pub struct CountingSrc {
    data: Rc<Vec<u8>>,
    i: usize,
    pulled: Rc<Cell<usize>>,
    /// number of bytes currently available: a resumable (streaming) source answers None when it
    /// has handed out all of them and yields again once more have arrived
    limit: Rc<Cell<usize>>,
}
impl CountingSrc {
    pub fn new(data: Rc<Vec<u8>>, pulled: Rc<Cell<usize>>) -> Self {
        let limit = Rc::new(Cell::new(usize::MAX));
        CountingSrc { data, i: 0, pulled, limit }
    }
    pub fn streaming(data: Rc<Vec<u8>>, pulled: Rc<Cell<usize>>, limit: Rc<Cell<usize>>) -> Self {
        CountingSrc { data, i: 0, pulled, limit }
    }
}
impl Iterator for CountingSrc {
    type Item = u8;
    fn next(&mut self) -> Option<u8> {
        if self.i >= self.limit.get() {
            return None;
        }
        let r = self.data.get(self.i).copied();
        if r.is_some() {
            self.i += 1;
            self.pulled.set(self.pulled.get() + 1);
        }
        r
    }
}

#[derive(Clone, Debug)]
pub struct MatchRec {
    pub s: i64,
    pub e: i64,
    pub v: String,
    /// bytes pulled from the counting source when the match was returned (-1: slice entry)
    pub pulled: i64,
    pub probes: u64,
    pub hops: u64,
}
impl MatchRec {
    pub fn json(&self) -> Value {
        json!({"s": self.s, "e": self.e, "v": self.v, "pulled": self.pulled,
               "probes": self.probes, "hops": self.hops})
    }
}

/// A real search iterator behind a box that still reaches the CONCRETE type's implementation of the
/// internal-iteration methods (`Box<dyn Iterator>` forwards only next/size_hint/nth; its `fold` is the
/// default loop over next(), so an overridden `fold` of the boxed type would never run).
pub trait MatchIter<V>: Iterator<Item = Match<V>> {
    fn for_each_box(self: Box<Self>, f: &mut dyn FnMut(Match<V>));
    fn fold_box(self: Box<Self>, f: &mut dyn FnMut(Match<V>));
    fn count_box(self: Box<Self>) -> usize;
    fn last_box(self: Box<Self>) -> Option<Match<V>>;
    fn hint(&self) -> (usize, Option<usize>);
}

impl<V, I: Iterator<Item = Match<V>>> MatchIter<V> for I {
    fn for_each_box(self: Box<Self>, f: &mut dyn FnMut(Match<V>)) {
        (*self).for_each(|m| f(m))
    }
    fn fold_box(self: Box<Self>, f: &mut dyn FnMut(Match<V>)) {
        (*self).fold((), |(), m| f(m))
    }
    fn count_box(self: Box<Self>) -> usize {
        (*self).count()
    }
    fn last_box(self: Box<Self>) -> Option<Match<V>> {
        (*self).last()
    }
    fn hint(&self) -> (usize, Option<usize>) {
        self.size_hint()
    }
}

pub struct StepIter<'a, V> {
    it: Box<dyn MatchIter<V> + 'a>,
    /// bytes available to a streaming source (entry "stream")
    pub limit: Option<Rc<Cell<usize>>>,
    pulled: Option<Rc<Cell<usize>>>,
    probes: u64,
    hops: u64,
}

impl<'a, V: Val> StepIter<'a, V> {
    pub fn into_inner(self) -> Box<dyn MatchIter<V> + 'a> {
        self.it
    }

    /// Consumes the iterator through an internal-iteration method of the Iterator trait, called on the
    /// concrete iterator type: "fold" / "for_each" (results collected), "count", "last".
    /// Returns (collected results, number consumed, last result for "last").
    pub fn drain(self, mode: &str) -> (Vec<MatchRec>, i64, Option<MatchRec>) {
        let (a, b, c, _) = self.drain_pulled(mode);
        (a, b, c)
    }

    /// as `drain`, plus the number of bytes pulled from a counting source afterwards (-1: none)
    pub fn drain_pulled(self, mode: &str) -> (Vec<MatchRec>, i64, Option<MatchRec>, i64) {
        let pulled = self.pulled.clone();
        let (a, b, c) = self.drain_inner(mode);
        (a, b, c, pulled.map_or(-1, |c| c.get() as i64))
    }

    fn drain_inner(self, mode: &str) -> (Vec<MatchRec>, i64, Option<MatchRec>) {
        fn conv<V: Val>(m: Match<V>) -> MatchRec {
            MatchRec { s: m.start() as i64, e: m.end() as i64, v: m.value().show(), pulled: -1, probes: 0, hops: 0 }
        }
        let mut out = vec![];
        let mut n = 0i64;
        match mode {
            "fold" | "for_each" => {
                let mut f = |m: Match<V>| {
                    n += 1;
                    if out.len() < 100_000 {
                        out.push(conv(m));
                    }
                };
                if mode == "fold" {
                    self.it.fold_box(&mut f)
                } else {
                    self.it.for_each_box(&mut f)
                }
                (out, n, None)
            }
            "count" => (out, self.it.count_box() as i64, None),
            _ => {
                // `last` says nothing about how many were consumed
                let l = self.it.last_box().map(conv);
                (out, -1, l)
            }
        }
    }

    /// size_hint() of the real iterator
    pub fn hint(&self) -> (usize, Option<usize>) {
        self.it.hint()
    }

    /// One `next()` call on the real iterator; counters are accumulated per iterator.
    pub fn step(&mut self) -> (Option<MatchRec>, i64, u64, u64) {
        daachorse::verif_hooks::reset();
        let m = self.it.next();
        let (p, h) = daachorse::verif_hooks::counters();
        self.probes += p;
        self.hops += h;
        let pulled = self.pulled.as_ref().map_or(-1, |c| c.get() as i64);
        let rec = m.map(|m| MatchRec {
            s: m.start() as i64,
            e: m.end() as i64,
            v: m.value().show(),
            pulled,
            probes: self.probes,
            hops: self.hops,
        });
        (rec, pulled, self.probes, self.hops)
    }
}

impl<V: Val> Pma<V> {
    pub fn var(&self) -> Var {
        match self {
            Pma::B(_) => Var::B,
            Pma::C(_) => Var::C,
        }
    }

    /// Creates a real iterator. entry: "slice" or "iter" (byte-iterator entry point with a
    /// counting source). `hay` must be valid UTF-8 for the char-wise variant.
    pub fn iter<'a>(&'a self, method: &str, entry: &str, hay: &'a Rc<Vec<u8>>) -> StepIter<'a, V> {
        let pulled = Rc::new(Cell::new(0usize));
        let stream = entry == "stream";
        let limit = Rc::new(Cell::new(if stream { 0 } else { usize::MAX }));
        let from_iter = entry == "iter" || stream;
        if entry == "owned" {
            return StepIter { it: self.iter_owned(method, hay), limit: None, pulled: None, probes: 0, hops: 0 };
        }
        let it: Box<dyn MatchIter<V> + 'a> = match self {
            Pma::B(p) => {
                let h: &'a [u8] = hay.as_slice();
                match (method, from_iter) {
                    ("ov", false) => Box::new(p.find_overlapping_iter(h)),
                    ("ov", true) => Box::new(
                        p.find_overlapping_iter_from_iter(CountingSrc::streaming(hay.clone(), pulled.clone(), limit.clone())),
                    ),
                    ("find", false) => Box::new(p.find_iter(h)),
                    ("find", true) => {
                        Box::new(p.find_iter_from_iter(CountingSrc::streaming(hay.clone(), pulled.clone(), limit.clone())))
                    }
                    ("nosuf", false) => Box::new(p.find_overlapping_no_suffix_iter(h)),
                    ("nosuf", true) => Box::new(p.find_overlapping_no_suffix_iter_from_iter(
                        CountingSrc::streaming(hay.clone(), pulled.clone(), limit.clone()),
                    )),
                    ("lm", _) => Box::new(p.leftmost_find_iter(h)),
                    _ => panic!("bad method {method}"),
                }
            }
            Pma::C(p) => {
                let h: &'a str = std::str::from_utf8(hay.as_slice()).expect("harness: valid UTF-8");
                match (method, from_iter) {
                    ("ov", false) => Box::new(p.find_overlapping_iter(h)),
                    ("ov", true) => Box::new(unsafe {
                        p.find_overlapping_iter_from_iter(CountingSrc::streaming(hay.clone(), pulled.clone(), limit.clone()))
                    }),
                    ("find", false) => Box::new(p.find_iter(h)),
                    ("find", true) => Box::new(unsafe {
                        p.find_iter_from_iter(CountingSrc::streaming(hay.clone(), pulled.clone(), limit.clone()))
                    }),
                    ("nosuf", false) => Box::new(p.find_overlapping_no_suffix_iter(h)),
                    ("nosuf", true) => Box::new(unsafe {
                        p.find_overlapping_no_suffix_iter_from_iter(CountingSrc::streaming(hay.clone(), pulled.clone(), limit.clone()))
                    }),
                    ("lm", _) => Box::new(p.leftmost_find_iter(h)),
                    _ => panic!("bad method {method}"),
                }
            }
        };
        StepIter {
            it,
            limit: if stream { Some(limit) } else { None },
            pulled: if from_iter { Some(pulled) } else { None },
            probes: 0,
            hops: 0,
        }
    }

    /// The haystack is handed over BY VALUE in an owning container (`[u8; N]` stored inline for the
    /// lengths 4/8/16/32, `Vec<u8>` otherwise; `String` for the char-wise automaton), and the
    /// iterator is then moved to the heap: any pointer into the moved-from value would dangle.
    fn iter_owned<'a>(&'a self, method: &str, hay: &Rc<Vec<u8>>) -> Box<dyn MatchIter<V> + 'a> {
        macro_rules! by_value {
            ($p:expr, $h:expr) => {
                match method {
                    "ov" => Box::new($p.find_overlapping_iter($h)) as Box<dyn MatchIter<V> + 'a>,
                    "find" => Box::new($p.find_iter($h)),
                    "nosuf" => Box::new($p.find_overlapping_no_suffix_iter($h)),
                    "lm" => Box::new($p.leftmost_find_iter($h)),
                    _ => panic!("bad method"),
                }
            };
        }
        match self {
            Pma::B(p) => match hay.len() {
                4 => by_value!(p, <[u8; 4]>::try_from(hay.as_slice()).unwrap()),
                8 => by_value!(p, <[u8; 8]>::try_from(hay.as_slice()).unwrap()),
                16 => by_value!(p, <[u8; 16]>::try_from(hay.as_slice()).unwrap()),
                32 => by_value!(p, <[u8; 32]>::try_from(hay.as_slice()).unwrap()),
                n if n <= 64 && n % 2 == 1 => by_value!(p, InlineBytes::new(hay.as_slice())),
                n if n % 6 == 0 => by_value!(p, hay.as_ref().clone().into_boxed_slice()),
                n if n % 6 == 2 => by_value!(p, std::borrow::Cow::<[u8]>::Owned(hay.as_ref().clone())),
                n if n % 6 == 4 => by_value!(p, std::sync::Arc::<[u8]>::from(hay.as_slice())),
                _ => by_value!(p, hay.as_ref().clone()),
            },
            Pma::C(p) => {
                if hay.len() <= 64 && hay.len() % 2 == 1 {
                    by_value!(p, InlineStr(InlineBytes::new(hay.as_slice())))
                } else {
                    let s = String::from_utf8(hay.as_ref().clone()).expect("harness: valid UTF-8");
                    match hay.len() % 6 {
                        0 => by_value!(p, s.into_boxed_str()),
                        2 => by_value!(p, std::borrow::Cow::<str>::Owned(s)),
                        4 => by_value!(p, std::sync::Arc::<str>::from(s.as_str())),
                        _ => by_value!(p, s),
                    }
                }
            }
        }
    }

    /// Takes `j` results with next() and hands the rest of the iterator to an internal-iteration
    /// consumer of the Iterator trait: "fold" (collects), "count", "last".  The iterator is used
    /// through its CONCRETE type (a `Box<dyn Iterator>` would bypass an overridden `fold`).
    /// Returns the matches obtained (for "fold": all of them), the number consumed internally and,
    /// for "last", the last one.
    pub fn search_mixed(
        &self,
        method: &str,
        entry: &str,
        hay: &Rc<Vec<u8>>,
        j: usize,
        mode: &str,
    ) -> (Vec<MatchRec>, i64, Option<MatchRec>) {
        fn conv<V: Val>(m: Match<V>) -> MatchRec {
            MatchRec { s: m.start() as i64, e: m.end() as i64, v: m.value().show(), pulled: -1, probes: 0, hops: 0 }
        }
        macro_rules! mixed {
            ($it:expr) => {{
                let mut it = $it;
                let mut out: Vec<MatchRec> = vec![];
                let mut exhausted = false;
                for _ in 0..j {
                    match it.next() {
                        Some(m) => out.push(conv(m)),
                        None => {
                            exhausted = true;
                            break;
                        }
                    }
                }
                if exhausted {
                    (out, 0i64, None)
                } else {
                    match mode {
                        "fold" => {
                            let rest = it.fold(vec![], |mut acc: Vec<MatchRec>, m| {
                                if acc.len() < 100_000 {
                                    acc.push(conv(m));
                                }
                                acc
                            });
                            let n = rest.len() as i64;
                            out.extend(rest);
                            (out, n, None)
                        }
                        "count" => {
                            let n = it.count() as i64;
                            (out, n, None)
                        }
                        _ => {
                            // for_each is fold-based as well
                            let mut n = 0i64;
                            let mut last = None;
                            it.for_each(|m| {
                                n += 1;
                                last = Some(conv(m));
                            });
                            (out, n, last)
                        }
                    }
                }
            }};
        }
        let pulled = Rc::new(Cell::new(0usize));
        let from_iter = entry == "iter";
        match self {
            Pma::B(p) => {
                let h: &[u8] = hay.as_slice();
                match (method, from_iter) {
                    ("ov", false) => mixed!(p.find_overlapping_iter(h)),
                    ("ov", true) => mixed!(p.find_overlapping_iter_from_iter(CountingSrc::new(hay.clone(), pulled.clone()))),
                    ("find", false) => mixed!(p.find_iter(h)),
                    ("find", true) => mixed!(p.find_iter_from_iter(CountingSrc::new(hay.clone(), pulled.clone()))),
                    ("nosuf", false) => mixed!(p.find_overlapping_no_suffix_iter(h)),
                    ("nosuf", true) => {
                        mixed!(p.find_overlapping_no_suffix_iter_from_iter(CountingSrc::new(hay.clone(), pulled.clone())))
                    }
                    _ => mixed!(p.leftmost_find_iter(h)),
                }
            }
            Pma::C(p) => {
                let h: &str = std::str::from_utf8(hay.as_slice()).expect("harness: valid UTF-8");
                match (method, from_iter) {
                    ("ov", false) => mixed!(p.find_overlapping_iter(h)),
                    ("ov", true) => mixed!(unsafe {
                        p.find_overlapping_iter_from_iter(CountingSrc::new(hay.clone(), pulled.clone()))
                    }),
                    ("find", false) => mixed!(p.find_iter(h)),
                    ("find", true) => {
                        mixed!(unsafe { p.find_iter_from_iter(CountingSrc::new(hay.clone(), pulled.clone())) })
                    }
                    ("nosuf", false) => mixed!(p.find_overlapping_no_suffix_iter(h)),
                    ("nosuf", true) => mixed!(unsafe {
                        p.find_overlapping_no_suffix_iter_from_iter(CountingSrc::new(hay.clone(), pulled.clone()))
                    }),
                    _ => mixed!(p.leftmost_find_iter(h)),
                }
            }
        }
    }

    /// Drives an iterator to exhaustion (at most `cap` results: an output-chain cycle would
    /// otherwise never end). Returns (matches, final pulled, final probes, final hops, capped).
    pub fn search_all(
        &self,
        method: &str,
        entry: &str,
        hay: &Rc<Vec<u8>>,
        cap: usize,
    ) -> (Vec<MatchRec>, i64, u64, u64, bool) {
        let mut it = self.iter(method, entry, hay);
        let mut out = vec![];
        loop {
            let (m, pulled, probes, hops) = it.step();
            match m {
                Some(m) => {
                    out.push(m);
                    if out.len() >= cap {
                        return (out, pulled, probes, hops, true);
                    }
                }
                None => return (out, pulled, probes, hops, false),
            }
        }
    }

    pub fn num_states(&self) -> usize {
        match self {
            Pma::B(p) => p.num_states(),
            Pma::C(p) => p.num_states(),
        }
    }
    pub fn num_elements(&self) -> usize {
        match self {
            Pma::B(p) => p.verif_raw().base.len(),
            Pma::C(p) => p.num_elements(),
        }
    }
    pub fn heap_bytes(&self) -> usize {
        match self {
            Pma::B(p) => p.heap_bytes(),
            Pma::C(p) => p.heap_bytes(),
        }
    }
    pub fn serialize(&self) -> Vec<u8> {
        match self {
            Pma::B(p) => p.serialize(),
            Pma::C(p) => p.serialize(),
        }
    }
    /// Deserialises `bytes`; returns the automaton and the length of the remainder.
    pub fn deserialize(var: Var, bytes: &[u8]) -> (Pma<V>, Vec<u8>) {
        match var {
            Var::B => {
                let (p, rest) = unsafe { DoubleArrayAhoCorasick::<V>::deserialize_unchecked(bytes) };
                (Pma::B(p), rest.to_vec())
            }
            Var::C => {
                let (p, rest) =
                    unsafe { CharwiseDoubleArrayAhoCorasick::<V>::deserialize_unchecked(bytes) };
                (Pma::C(p), rest.to_vec())
            }
        }
    }
    pub fn same(&self, other: &Pma<V>) -> bool {
        match (self, other) {
            (Pma::B(a), Pma::B(b)) => V::eq_b(a, b),
            (Pma::C(a), Pma::C(b)) => V::eq_c(a, b),
            _ => false,
        }
    }
    /// `self.clone_from(source)`: overwrite an existing automaton in place
    pub fn clone_from_pma(&mut self, source: &Pma<V>) {
        match (self, source) {
            (Pma::B(a), Pma::B(b)) => a.clone_from(b),
            (Pma::C(a), Pma::C(b)) => a.clone_from(b),
            _ => panic!("harness: variant mismatch"),
        }
    }
    pub fn clone_pma(&self) -> Pma<V> {
        match self {
            Pma::B(a) => Pma::B(a.clone()),
            Pma::C(a) => Pma::C(a.clone()),
        }
    }

    pub fn raw(&self) -> VerifRaw {
        match self {
            Pma::B(p) => p.verif_raw(),
            Pma::C(p) => p.verif_raw(),
        }
    }
    fn out_value(&self, i: usize) -> String {
        match self {
            Pma::B(p) => p.verif_output_value(i).show(),
            Pma::C(p) => p.verif_output_value(i).show(),
        }
    }

    /// The complete transition table reachable from the root, obtained by calling the
    /// implementation's own child lookup for every reachable state and every label
    /// (all 256 bytes / all mapper codes).
    pub fn table(&self, with_nexts: bool, extra_labels: &[u32]) -> Value {
        let raw = self.raw();
        let len = raw.base.len();
        let (block, nlabels): (usize, u32) = match self {
            Pma::B(_) => (256, 256),
            Pma::C(_) => (
                (raw.alphabet_size.next_power_of_two().max(2)) as usize,
                raw.alphabet_size,
            ),
        };
        // code -> label (identity for bytes; inverse mapper for chars)
        let mut label_of: Vec<u32> = (0..nlabels).collect();
        let mut mapper_ok = true;
        if let Pma::C(_) = self {
            label_of = vec![u32::MAX; nlabels as usize];
            for &(cp, code) in &raw.mapper {
                if (code as usize) < label_of.len() && label_of[code as usize] == u32::MAX {
                    label_of[code as usize] = cp;
                } else {
                    mapper_ok = false;
                }
            }
        }
        let child = |s: u32, code: u32| -> VerifStep {
            match self {
                Pma::B(p) => p.verif_child(s, code as u8),
                Pma::C(p) => p.verif_child_code(s, code),
            }
        };
        let mut idx_of: std::collections::HashMap<u32, usize> = std::collections::HashMap::new();
        let mut order: Vec<u32> = vec![0];
        let mut par: Vec<usize> = vec![0];
        let mut lab: Vec<u32> = vec![0];
        idx_of.insert(0, 1);
        let mut extra = vec![];
        let mut oob: u64 = 0;
        let mut qi = 0;
        while qi < order.len() {
            let s = order[qi];
            qi += 1;
            // every code of the block is probed for range; codes of the alphabet define edges
            for code in 0..(block as u32) {
                match child(s, code) {
                    VerifStep::Oob => oob += 1,
                    VerifStep::None => {}
                    VerifStep::Some(t) => {
                        if code >= nlabels {
                            continue; // a code the mapper never produces
                        }
                        if t <= 1 || idx_of.contains_key(&t) {
                            // toidx: position of the target in the dump (-1: the reserved dead slot)
                            let toidx: i64 = if t == 1 { -1 } else { idx_of.get(&t).map_or(0, |&x| x as i64) };
                            extra.push(json!({"from": qi, "lab": label_of[code as usize], "to": t, "toidx": toidx}));
                        } else {
                            idx_of.insert(t, order.len() + 1);
                            order.push(t);
                            par.push(qi);
                            lab.push(label_of[code as usize]);
                        }
                    }
                }
            }
            if order.len() > len + 2 {
                break;
            }
        }
        let slots: Vec<Value> = order
            .iter()
            .enumerate()
            .map(|(i, &s)| {
                let f = raw.fail[s as usize];
                let failidx: i64 = if f == 1 {
                    0
                } else {
                    idx_of.get(&f).map_or(-1, |&x| x as i64)
                };
                json!({"slot": s, "par": par[i], "lab": lab[i], "base": raw.base[s as usize],
                       "fail": f, "failidx": failidx, "opos": raw.output_pos[s as usize]})
            })
            .collect();
        let outs: Vec<Value> = (0..raw.out_len.len())
            .map(|i| json!({"len": raw.out_len[i], "parent": raw.out_parent[i], "v": self.out_value(i)}))
            .collect();
        let mut nexts = vec![];
        if with_nexts {
            let lm = raw.match_kind != 0;
            let mut labels: Vec<u32> = match self {
                Pma::B(_) => {
                    let mut l: Vec<u32> = lab.iter().skip(1).copied().collect();
                    l.sort_unstable();
                    l.dedup();
                    l
                }
                Pma::C(_) => raw.mapper.iter().map(|x| x.0).collect(),
            };
            for &x in extra_labels {
                if !labels.contains(&x) {
                    labels.push(x);
                }
            }
            for (i, &s) in order.iter().enumerate() {
                for &l in &labels {
                    let r = match self {
                        Pma::B(p) => p.verif_next_state(s, l as u8, lm),
                        Pma::C(p) => p.verif_next_state(s, char::from_u32(l).unwrap(), lm),
                    };
                    let t: i64 = match r {
                        VerifStep::Oob => -2,
                        VerifStep::None => -3,
                        VerifStep::Some(t) => idx_of.get(&t).map_or(-1, |&x| x as i64),
                    };
                    nexts.push(json!([i + 1, l, t]));
                }
            }
        }
        let mapper: Vec<Value> = raw.mapper.iter().map(|&(c, k)| json!([c, k])).collect();
        json!({
            "len": len, "block": block, "nslots": order.len(), "slots": slots, "extra": extra,
            "oob": oob, "outs": outs, "mapper": mapper, "mapper_ok": mapper_ok,
            "alphabet": raw.alphabet_size, "mapper_len": raw.mapper_len,
            "kindbyte": raw.match_kind, "num_states": raw.num_states, "nexts": nexts,
            "dead": {"base": raw.base.get(1).copied().unwrap_or(0), "fail": raw.fail.get(1).copied().unwrap_or(0),
                     "opos": raw.output_pos.get(1).copied().unwrap_or(0)},
        })
    }
}
