---------------------------- MODULE MC_DoubleArray ----------------------------
(***************************************************************************)
(* Model-checking harness for layer L2: the exact BuildHelper ring and     *)
(* both double-array builders, for every pattern set over Alpha, every     *)
(* num_free_blocks in NFBS and a small BLOCK so that tries span several    *)
(* blocks and blocks are evicted (closed) -- code no test executes.        *)
(***************************************************************************)
EXTENDS Naturals, Integers, Sequences, FiniteSets, TLC, SequencesExt, FiniteSetsExt,
        DoubleArray, Search, Semantics

CONSTANTS Alpha, MaxPatLen, MaxPats, BLOCK, NFBS, Kinds, Vars

VARIABLES pats, kind, nfa, da, phase
vars == <<pats, kind, nfa, da, phase>>

SeqsUpTo(S, n) == UNION {[1..k -> S] : k \in 0..n}
AllPats == SeqsUpTo(Alpha, MaxPatLen) \ {<<>>}
PatSets == {S \in SUBSET AllPats : Cardinality(S) \in 1..MaxPats}
LexLess(a, b) == \E k \in 1..(Len(a) + 1) :
                   /\ \A j \in 1..(k - 1) : j <= Len(b) /\ a[j] = b[j]
                   /\ \/ k = Len(a) + 1 /\ Len(b) >= k
                      \/ k <= Len(a) /\ k <= Len(b) /\ a[k] < b[k]

NfaOf(ps, kd) == BuildNfa(ps, [i \in 1..Len(ps) |-> Len(ps[i])], kd).nfa
BlockOf(var, ps) == IF var = "B" THEN BLOCK ELSE CharBlockLen(ps)
MapOf(var, ps) == IF var = "B" THEN <<>> ELSE Mapper(ps)

Init == \E S \in PatSets, nfb \in NFBS, kd \in Kinds, var \in Vars :
          LET ps == SetToSortSeq(S, LexLess) n == NfaOf(ps, kd) IN
          /\ pats = ps /\ kind = kd /\ nfa = n
          /\ da = InitDA(var, BlockOf(var, ps), MapOf(var, ps), n, nfb)
          /\ phase = "place"

DoStep   == phase = "place" /\ Len(da.stack) > 0 /\ da' = PlaceStep(nfa, da)
            /\ UNCHANGED <<pats, kind, nfa, phase>>
DoFinish == phase = "place" /\ Len(da.stack) = 0 /\ da' = Finish(nfa, da) /\ phase' = "done"
            /\ UNCHANGED <<pats, kind, nfa>>
Next == DoStep \/ DoFinish
Spec == Init /\ [][Next]_vars

\* ---------------------------------------------------------------------------
\* C10: the free-list / growth assertions never fire for valid input
NoPanic == ~da.h.panic
\* I-ring
RingInv == RingOK(da.h)

NodesN == Nodes(nfa)
Labels == IF da.var = "B" THEN 0..(da.bl - 1) ELSE DOMAIN da.mp
Codes  == 0..(da.bl - 1)

\* I-enc (C01, C07, C11): for every node and EVERY code of the block the array has exactly
\* the trie's edges
Encodes ==
  phase = "done" =>
    /\ \A n \in NodesN : \A code \in Codes :
         LET lbls == {c \in Labels : Code(da, c) = code}
             ch   == IF lbls = {} THEN 0 ELSE Child(nfa, n, CHOOSE c \in lbls : TRUE)
             r    == DAChild(da, da.map[n], code) IN
         IF ch = 0 THEN r = NOCH ELSE r = da.map[ch]
    /\ \A n1, n2 \in NodesN : n1 # n2 => da.map[n1] # da.map[n2]
    /\ \A n \in NodesN \ {ROOT} : da.map[n] \notin {ROOTI, DEADI}

\* I-closure (C07)
Closure ==
  /\ Cardinality(DOMAIN da.st) = NumEl(da.h)
  /\ Cardinality(DOMAIN da.st) % da.bl = 0
  /\ \A i \in DOMAIN da.st :
       /\ da.st[i].base # 0 => da.st[i].base \in DOMAIN da.st
       /\ da.st[i].fail \in DOMAIN da.st
       /\ da.st[i].opos <= Len(nfa.outs)

\* P-noob (C07): from every state the search can be in, no label makes the unchecked read
\* leave the array
NoOob ==
  phase = "done" =>
    \A n \in NodesN : \A code \in Codes : DAChild(da, da.map[n], code) # OOB

\* I-sim: the decoded array steps exactly like the abstract automaton, for every node and
\* every label plus one unmapped label, both transition functions
Sim ==
  phase = "done" =>
    LET dec == Decoded(da, nfa.outs, Labels)
        aut == IF da.var = "C" THEN dec @@ [alpha |-> DOMAIN da.mp] ELSE dec
        lm  == kind # "STD" IN
    \A n \in NodesN : \A c \in Labels \cup {99} :
       LET a == NextStateR(nfa, n, c, lm)
           b == NextStateR(IF da.var = "C" THEN aut ELSE dec, da.map[n] + 1, c, lm) IN
       /\ b.t = da.map[a.t] + 1
       /\ (c \in Labels => b.probes = a.probes /\ b.hops = a.hops)
       /\ aut.st[da.map[n] + 1].opos = nfa.st[n].opos

\* I-det (C14): the arrays do not depend on the order of the input
Perms(ps) == {f \in [1..Len(ps) -> 1..Len(ps)] : \A i, j \in 1..Len(ps) : i # j => f[i] # f[j]}
OrderIndependent ==
  phase = "done" /\ kind # "LF" =>
    \A f \in Perms(pats) :
      LET ps2 == [i \in 1..Len(pats) |-> pats[f[i]]]
          n2  == NfaOf(ps2, kind)
          d2  == BuildDA(da.var, BlockOf(da.var, ps2), MapOf(da.var, ps2), n2, da.h.nfb) IN
      d2.st = da.st

\* evictions are actually reached (vacuity guard, checked with -coverage / as a property that
\* must be violated): used by the self test
NeverEvicts == da.h.nblocks <= da.h.nfb
=============================================================================
