----------------------------- MODULE Semantics -----------------------------
(***************************************************************************)
(* Declarative meaning of the search and construction properties of        *)
(* daachorse, written directly from the property statements.  No state,    *)
(* no automaton: a text is a sequence of naturals (bytes), a pattern       *)
(* collection is a sequence of texts, an occurrence is <<start,end,index>> *)
(* with 0-based half-open byte offsets and a 1-based pattern index.        *)
(***************************************************************************)
EXTENDS Naturals, Sequences, FiniteSets, SequencesExt, FiniteSetsExt

\* every occurrence of every pattern (C01, C06)
Occ(ps, h) ==
  {<<p[1], p[1] + Len(ps[p[2]]), p[2]>> : p \in
     {q \in (0..Len(h)) \X (1..Len(ps)) :
        /\ Len(ps[q[2]]) >= 1
        /\ q[1] + Len(ps[q[2]]) <= Len(h)
        /\ SubSeq(h, q[1] + 1, q[1] + Len(ps[q[2]])) = ps[q[2]]}}

\* end ascending, then longest (= smallest start) first
OvLess(a, b) == a[2] < b[2] \/ (a[2] = b[2] /\ a[1] < b[1])

\* C01: all occurrences, by end, longest first
ExpOverlapO(oc) == SetToSortSeq(oc, OvLess)
ExpOverlap(ps, h) == ExpOverlapO(Occ(ps, h))

\* C05: the longest occurrence per end position
ExpNoSuffixO(oc) ==
  SetToSortSeq({o \in oc : \A o2 \in oc : o2[2] = o[2] => o[1] <= o2[1]}, OvLess)
ExpNoSuffix(ps, h) == ExpNoSuffixO(Occ(ps, h))

\* C02: among occurrences starting at or after `from`, the one ending first
\* (longest if several), then resume at its end
RECURSIVE ExpStandardO(_, _)
ExpStandardO(oc, from) ==
  LET c == {o \in oc : o[1] >= from} IN
  IF c = {} THEN <<>> ELSE
  LET e  == Min({o[2] : o \in c})
      ce == {o \in c : o[2] = e}
      s  == Min({o[1] : o \in ce})
      m  == CHOOSE o \in ce : o[1] = s
  IN <<m>> \o ExpStandardO(oc, e)
ExpStandard(ps, h) == ExpStandardO(Occ(ps, h), 0)

\* C03: leftmost start, then longest; resume at its end
RECURSIVE ExpLeftmostLongestO(_, _)
ExpLeftmostLongestO(oc, from) ==
  LET c == {o \in oc : o[1] >= from} IN
  IF c = {} THEN <<>> ELSE
  LET s  == Min({o[1] : o \in c})
      cs == {o \in c : o[1] = s}
      e  == Max({o[2] : o \in cs})
      m  == CHOOSE o \in cs : o[2] = e
  IN <<m>> \o ExpLeftmostLongestO(oc, e)
ExpLeftmostLongest(ps, h) == ExpLeftmostLongestO(Occ(ps, h), 0)

\* C04: leftmost start, then earliest registered; resume at its end
RECURSIVE ExpLeftmostFirstO(_, _)
ExpLeftmostFirstO(oc, from) ==
  LET c == {o \in oc : o[1] >= from} IN
  IF c = {} THEN <<>> ELSE
  LET s  == Min({o[1] : o \in c})
      cs == {o \in c : o[1] = s}
      i  == Min({o[3] : o \in cs})
      m  == CHOOSE o \in cs : o[3] = i
  IN <<m>> \o ExpLeftmostFirstO(oc, m[2])
ExpLeftmostFirst(ps, h) == ExpLeftmostFirstO(Occ(ps, h), 0)

Expected(method, kind, ps, h) ==
  LET oc == Occ(ps, h) IN
  CASE method = "ov"    -> ExpOverlapO(oc)
    [] method = "find"  -> ExpStandardO(oc, 0)
    [] method = "nosuf" -> ExpNoSuffixO(oc)
    [] method = "lm"    -> IF kind = "LL" THEN ExpLeftmostLongestO(oc, 0)
                           ELSE ExpLeftmostFirstO(oc, 0)

\* ---- construction outcome (C10) -----------------------------------------
HasEmpty(ps) == \E i \in 1..Len(ps) : ps[i] = <<>>
\* two equal entries (stated through the number of distinct entries: TLC builds the set in
\* O(n log n), the pairwise formulation is quadratic and collections of 66 000 patterns are validated)
HasDup(ps)   == Cardinality({ps[i] : i \in 1..Len(ps)}) < Len(ps)

\* maxIdx: largest position the value type can represent when values are the
\* input positions (entry = "new"); irrelevant for entry = "with_values"
ApplicableErrors(ps, entry, maxIdx) ==
     (IF Len(ps) = 0 \/ HasEmpty(ps) THEN {"InvalidArgument"} ELSE {})
  \cup (IF HasDup(ps) THEN {"DuplicatePattern"} ELSE {})
  \cup (IF entry = "new" /\ Len(ps) >= 1 /\ Len(ps) - 1 > maxIdx
        THEN {"InvalidConversion"} ELSE {})
ValidCollection(ps, entry, maxIdx) == ApplicableErrors(ps, entry, maxIdx) = {}
OutcomeAllowed(out, ps, entry, maxIdx) ==
  IF ValidCollection(ps, entry, maxIdx) THEN out = "ok"
  ELSE out \in ApplicableErrors(ps, entry, maxIdx)

\* ---- statistics (C15) -----------------------------------------------------
IsProperPrefix(p, q) == Len(p) < Len(q) /\ SubSeq(q, 1, Len(p)) = p
\* under leftmost-first, a pattern with an earlier-registered proper prefix
Shadowed(ps, i) == \E j \in 1..(i-1) : IsProperPrefix(ps[j], ps[i])
Reportable(ps, kind) ==
  {i \in 1..Len(ps) : ~(kind = "LF" /\ Shadowed(ps, i))}
PrefixesOf(ps, kind) ==
  UNION {{SubSeq(ps[i], 1, k) : k \in 1..Len(ps[i])} : i \in Reportable(ps, kind)}
NumStates(ps, kind) == 1 + Cardinality(PrefixesOf(ps, kind))

\* ---- helpers --------------------------------------------------------------
IsSuffixOf(u, w) == Len(u) <= Len(w) /\ SubSeq(w, Len(w) - Len(u) + 1, Len(w)) = u
IsProperSuffixOf(u, w) == Len(u) < Len(w) /\ IsSuffixOf(u, w)
=============================================================================
