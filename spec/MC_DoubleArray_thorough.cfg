CONSTANTS
  Alpha = {0,1,2,3}
  MaxPatLen = 2
  MaxPats = 4
  BLOCK = 4
  NFBS = {1,2,3}
  Kinds = {"STD","LL"}
  Vars = {"B","C"}
SPECIFICATION Spec
INVARIANT NoPanic RingInv Encodes Closure NoOob Sim OrderIndependent
CHECK_DEADLOCK FALSE
