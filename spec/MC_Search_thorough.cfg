CONSTANTS
  Alpha = {0,1}
  MaxPatLen = 3
  MaxPats = 3
  MaxHay = 6
  Kinds = {"STD","LL","LF"}
SPECIFICATION Spec
INVARIANT Correct CorrectC TErr TTrie TFailStd TFailLm TOutStd TOutRank PHops PLazy
CHECK_DEADLOCK FALSE
