CONSTANTS
  Alpha = {0,1}
  MaxPatLen = 3
  MaxPats = 2
SPECIFICATION Spec
INVARIANT WindowInv
PROPERTY EmitOK HopsPaid
CHECK_DEADLOCK FALSE
