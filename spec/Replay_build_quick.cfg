\* build behaviours only (the haystack stays empty): every ordered collection of up to MaxPats entries,
\* empty entries and repeats in every position, all match kinds
CONSTANTS
  Alpha = {0,1}
  MaxPatLen = 3
  MaxPats = 4
  MaxHay = 0
  Kinds = {"STD","LL","LF"}
SPECIFICATION Spec
INVARIANT Emit
CHECK_DEADLOCK FALSE
