----------------------------- MODULE BuildHelper -----------------------------
(***************************************************************************)
(* src/build_helper.rs as written: a ring of ListItems addressed modulo    *)
(* the capacity (block_len * num_free_blocks), `head_idx`, block eviction  *)
(* on `push_block`.  Every `assert!` / `unwrap` site that guards an access *)
(* is modelled: touching an index outside the active range sets `panic`.   *)
(***************************************************************************)
EXTENDS Naturals, Integers, Sequences, FiniteSets

NONE == -1
Item0 == [next |-> 0, prev |-> 0, ub |-> FALSE, ui |-> FALSE]     \* ListItem::default()

Cap(h)      == h.bl * h.nfb
NumEl(h)    == h.nblocks * h.bl                                  \* num_elements()
ActBlkLo(h) == IF h.nblocks > h.nfb THEN h.nblocks - h.nfb ELSE 0 \* active_block_range().start
ActBlocks(h) == ActBlkLo(h)..(h.nblocks - 1)
ActIdx(h)   == (ActBlkLo(h) * h.bl)..(h.nblocks * h.bl - 1)       \* active_index_range()
Off(h, idx) == idx % Cap(h)                                      \* offset()
InAct(h, idx) == idx \in ActIdx(h)
Get(h, idx) == h.items[Off(h, idx)]
\* offset() asserts that the index is active
Touch(h, idx) == IF InAct(h, idx) THEN h ELSE [h EXCEPT !.panic = TRUE]

NewHelper(bl, nfb) ==
  [items |-> [o \in 0..(bl * nfb - 1) |-> Item0], bl |-> bl, nfb |-> nfb, nblocks |-> 0,
   head |-> NONE, panic |-> FALSE]

\* use_index (build_helper.rs:118-130)
UseIndex(h0, idx) ==
  LET h == Touch(h0, idx) IN
  IF h.panic THEN h ELSE
  LET it == Get(h, idx)
      nx == it.next
      pv == it.prev
      h1 == Touch(Touch(h, pv), nx) IN
  IF h1.panic \/ h.head = NONE THEN [h1 EXCEPT !.panic = TRUE] ELSE
  LET i1 == [h1.items EXCEPT ![Off(h, idx)].ui = TRUE]
      i2 == [i1 EXCEPT ![Off(h, pv)].next = nx]
      i3 == [i2 EXCEPT ![Off(h, nx)].prev = pv]
  IN [h1 EXCEPT !.items = i3,
                !.head = IF h.head = idx THEN (IF nx = idx THEN NONE ELSE nx) ELSE h.head]

UseBase(h0, b)   == LET h == Touch(h0, b) IN
                    IF h.panic THEN h ELSE [h EXCEPT !.items[Off(h, b)].ub = TRUE]
IsUsedBase(h, b) == Get(h, b).ub
IsUsedIdx(h, i)  == Get(h, i).ui

\* dropped_block (build_helper.rs:177-179)
Dropped(h) == IF Cap(h) <= NumEl(h) THEN ActBlkLo(h) ELSE NONE

\* unused_base_in_block (build_helper.rs:73-77); NONE if every base of the block is used
UnusedBaseInBlock(h, blk) ==
  LET c == {b \in (blk * h.bl)..(blk * h.bl + h.bl - 1) : ~IsUsedBase(h, b)} IN
  IF c = {} THEN NONE ELSE CHOOSE b \in c : \A b2 \in c : b <= b2

\* push_block (build_helper.rs:133-173): closing loop, reset loop, splice
RECURSIVE CloseLoop(_, _)
CloseLoop(h, endIdx) ==
  IF h.head = NONE \/ h.panic \/ endIdx <= h.head THEN h
  ELSE CloseLoop(UseIndex(h, h.head), endIdx)

RECURSIVE ResetLoop(_, _, _)
ResetLoop(h, idx, newLen) ==
  IF idx >= newLen THEN h
  ELSE ResetLoop([h EXCEPT !.items[Off(h, idx)] =
                     [next |-> idx + 1, prev |-> idx - 1, ub |-> FALSE, ui |-> FALSE]],
                 idx + 1, newLen)

PushBlock(h0) ==
  LET h1     == IF Dropped(h0) # NONE THEN CloseLoop(h0, (Dropped(h0) + 1) * h0.bl) ELSE h0
      oldLen == NumEl(h1)
      newLen == oldLen + h1.bl
      h2     == [h1 EXCEPT !.nblocks = @ + 1]
      h3     == ResetLoop(h2, oldLen, newLen)
  IN IF h3.head # NONE THEN
        LET tail == Get(h3, h3.head).prev
            h4   == Touch(Touch(h3, tail), h3.head)
            i1   == [h4.items EXCEPT ![Off(h4, oldLen)].prev = tail]
            i2   == [i1 EXCEPT ![Off(h4, tail)].next = oldLen]
            i3   == [i2 EXCEPT ![Off(h4, newLen - 1)].next = h4.head]
            i4   == [i3 EXCEPT ![Off(h4, h4.head)].prev = newLen - 1]
        IN [h4 EXCEPT !.items = i4]
     ELSE LET i1 == [h3.items EXCEPT ![Off(h3, oldLen)].prev = newLen - 1]
              i2 == [i1 EXCEPT ![Off(h3, newLen - 1)].next = oldLen]
          IN [h3 EXCEPT !.items = i2, !.head = oldLen]

\* vacant_iter (build_helper.rs:215-226) as a sequence
RECURSIVE VacSeq(_, _, _)
VacSeq(h, cur, fuel) ==
  IF cur = NONE \/ fuel = 0 THEN <<>>
  ELSE LET nx == Get(h, cur).next IN
       <<cur>> \o VacSeq(h, IF nx = h.head THEN NONE ELSE nx, fuel - 1)
Vacants(h) == VacSeq(h, h.head, Cap(h) + 1)

\* I-ring: the ring lists exactly the vacant slots of the active window, ascending
RingOK(h) ==
  LET v == Vacants(h) IN
  /\ \A i \in 1..(Len(v) - 1) : v[i] < v[i + 1]
  /\ {v[i] : i \in 1..Len(v)} = {i \in ActIdx(h) : ~IsUsedIdx(h, i)}
=============================================================================
