CONSTANTS
  Alpha = {0,1,2}
  MaxPatLen = 2
  MaxPats = 2
  BLOCK = 4
  Widths = {0, 1, 3, 8, 16}
  Trails <- TrailsDef
SPECIFICATION Spec
INVARIANT RoundTrip UnknownKind
CHECK_DEADLOCK FALSE
