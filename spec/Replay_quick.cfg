CONSTANTS
  Alpha = {0,1}
  MaxPatLen = 3
  MaxPats = 2
  MaxHay = 5
  Kinds = {"STD","LL","LF"}
SPECIFICATION Spec
INVARIANT Emit
CHECK_DEADLOCK FALSE
