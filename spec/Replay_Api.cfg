CONSTANTS
  Menu <- MenuDef
  Hays <- HaysDef
  MaxAutos = 3
  MaxIters = 4
  MaxActs = 14
SPECIFICATION SimSpec
INVARIANT Emit Interleaved Lazy
CHECK_DEADLOCK FALSE
