------------------------------ MODULE MC_Daacfind ------------------------------
(* All duplicate-free pattern lists and all lines within small bounds: the CLI's filter and   *)
(* colour machine produce exactly the matching lines and the union of all occurrences.        *)
EXTENDS Daacfind, TLC
CONSTANTS Alpha, MaxPatLen, MaxPats, MaxLine
VARIABLES pats, line, phase
vars == <<pats, line, phase>>
SeqsUpTo(S, n) == UNION {[1..k -> S] : k \in 0..n}
AllPats == SeqsUpTo(Alpha, MaxPatLen) \ {<<>>}
Init == pats = <<>> /\ line = <<>> /\ phase = "add"
Add(p) == phase = "add" /\ Len(pats) < MaxPats /\ (\A i \in 1..Len(pats) : pats[i] # p)
          /\ pats' = Append(pats, p) /\ UNCHANGED <<line, phase>>
Feed(l) == phase = "add" /\ Len(pats) >= 1 /\ line' = l /\ phase' = "line" /\ UNCHANGED pats
Next == (\E p \in AllPats : Add(p)) \/ (\E l \in SeqsUpTo(Alpha, MaxLine) : Feed(l))
Spec == Init /\ [][Next]_vars

Aut == CliNfa(pats).nfa
Filter == phase = "line" =>
  /\ ProcessLine(Aut, line, "never").printed = LineMatches(pats, line)
  /\ ProcessLine(Aut, line, "always").printed = LineMatches(pats, line)
Colour == phase = "line" =>
  /\ ProcessLine(Aut, line, "always").hl = Covered(pats, line)
  /\ SegmentsTile(line, RunAll(Aut, "nosuf", ByteSyms(line), "B").ms)
=============================================================================
