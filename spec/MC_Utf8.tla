-------------------------------- MODULE MC_Utf8 --------------------------------
(* The transcribed decoder (charwise/iter.rs:72-98) inverts the UTF-8 encoder on every scalar  *)
(* value of the set checked, never pulls past the end of a valid encoding and never produces a  *)
(* non-scalar (C07, C08).  Quick: all branch boundaries +-3 and a stride; thorough: every       *)
(* scalar value.                                                                                  *)
EXTENDS Naturals, Sequences, Utf8, TLC
CONSTANT Full
VARIABLE x
Bnd == {0, 127, 128, 2047, 2048, 4095, 4096, 55295, 57344, 65535, 65536, 262143, 262144, 1114111}
Near == UNION {{b - 3, b - 2, b - 1, b, b + 1, b + 2, b + 3} : b \in Bnd}
QuickSet == {c \in Near \cup {c0 * 977 : c0 \in 0..1140} : c >= 0 /\ c <= 1114111 /\ IsScalar(c)}
Good(c) ==
  LET b == Enc(c)
      d == DecodeStep(b, 0) IN
  /\ Len(b) = Width(c)
  /\ d.end = Len(b) /\ d.cp = c /\ ~d.oob /\ ~d.bad
  \* embedded after another character, offsets are absolute
  /\ DecodeAll(<<97>> \o b \o <<97>>) = <<<<1, 97>>, <<1 + Len(b), c>>, <<2 + Len(b), 97>>>>
\* (the full range is an interval, which TLC does not enumerate into a set: its explicit sets are limited to 10^6 elements)
ASSUME IF Full THEN \A c \in 0..1114111 : IsScalar(c) => Good(c)
       ELSE \A c \in QuickSet : Good(c)
\* a truncated encoding makes the decoder pull past the end: the ghost `oob` is what C07 excludes
ASSUME \A c \in {233, 19990, 128512} : DecodeStep(SubSeq(Enc(c), 1, Len(Enc(c)) - 1), 0).oob
Init == x = 0
Next == x' = x
Spec == Init /\ [][Next]_x
=============================================================================
