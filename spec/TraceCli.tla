------------------------------- MODULE TraceCli -------------------------------
(***************************************************************************)
(* code -> spec for the daacfind binary (C16): every recorded invocation   *)
(* (flags, pattern list, inputs, parsed stdout, exit status) must be a     *)
(* behaviour of module Daacfind, and must mean what Semantics says.        *)
(***************************************************************************)
EXTENDS Naturals, Integers, Sequences, FiniteSets, TLC, Json, IOUtils, SequencesExt, FiniteSetsExt,
        Daacfind

Rec == ndJsonDeserialize(IOEnv.TRACE)

VARIABLES l, bad
vars == <<l, bad>>

Chk(name, cond) == IF ~cond THEN {name} ELSE {}
Bits(f) == [i \in 1..Len(f) |-> IF f[i] THEN 1 ELSE 0]

\* the lines the tool must print for one input, in order: <<shown file name, 0-based index, text>>
\* (IterRange: the sequential loop evaluated by divide and conquer -- inputs of thousands of lines)
ExpLines(aut, name, lines, j, color, acc0) ==
  IterRange(LAMBDA acc, k :
              LET r == ProcessLine(aut, lines[k], color) IN
              IF r.printed THEN Append(acc, [file |-> name, idx |-> k - 1, text |-> lines[k], hl |-> Bits(r.hl)])
              ELSE acc,
            acc0, j, Len(lines))

RECURSIVE ExpAll(_, _, _, _, _)
ExpAll(aut, inputs, k, ev, acc) ==
  IF k > Len(inputs) THEN acc
  ELSE LET shown == IF inputs[k].name = "stdin" \/ ev.flags.h THEN "" ELSE inputs[k].name IN
       ExpAll(aut, inputs, k + 1, ev, ExpLines(aut, shown, inputs[k].lines, 1, ev.flags.color, acc))

CliFails(ev) ==
  LET pats == ev.pats
      b    == CliNfa(pats)
      exp  == IF b.res = "ok" THEN ExpAll(b.nfa, ev.inputs, 1, ev, <<>>) ELSE <<>>
      got  == ev.out
      n    == Len(exp)
  IN
     Chk("cli.starts_without_panic", ~ev.panic /\ ev.exit = 0)
  \cup Chk("cli.model_builds", b.res = "ok")
  \cup Chk("cli.output_parses", ev.parse_ok)
  \cup Chk("cli.exactly_matching_lines_in_order",
           /\ Len(got) = n
           /\ \A k \in 1..(IF Len(got) < n THEN Len(got) ELSE n) :
                got[k].text = exp[k].text /\ got[k].file = exp[k].file)
  \cup Chk("cli.meaning_filter",
           \* declarative: a line is printed iff some pattern occurs in it
           b.res = "ok" =>
             \A k \in 1..Len(ev.inputs) : \A j \in 1..Len(ev.inputs[k].lines) :
               LineMatches(pats, ev.inputs[k].lines[j]) =
                 ProcessLine(b.nfa, ev.inputs[k].lines[j], ev.flags.color).printed)
  \cup Chk("cli.line_numbers",
           Len(got) = n =>
             IF ev.flags.n
             THEN \E off \in {0, 1} : \A k \in 1..n : got[k].lineno = exp[k].idx + off
             ELSE \A k \in 1..n : got[k].lineno = -1)
  \cup Chk("cli.highlight",
           Len(got) = n =>
             \A k \in 1..n :
               IF ev.flags.color = "always"
               THEN /\ got[k].hl = exp[k].hl
                    /\ got[k].hl = Bits(Covered(pats, exp[k].text))
               ELSE \A i \in 1..Len(got[k].hl) : got[k].hl[i] = 0)

Init == l = 1 /\ bad = <<>>
Step == /\ l <= Len(Rec) /\ l' = l + 1
        /\ LET ev == Rec[l] IN
           IF ev.ev # "cli" THEN UNCHANGED bad
           ELSE LET f == CliFails(ev) IN
                IF f = {} THEN UNCHANGED bad
                ELSE bad' = Append(bad, [line |-> l, sc |-> ev.id, ev |-> "cli", fails |-> SetToSeq(f)])
Done == /\ l = Len(Rec) + 1
        /\ PrintT(<<"RESULT", ToJson([consumed |-> l - 1, total |-> Len(Rec), bad |-> bad])>>)
        /\ l' = l + 1 /\ UNCHANGED bad
Next == Step \/ Done
Spec == Init /\ [][Next]_vars
=============================================================================
