------------------------------- MODULE MC_Format -------------------------------
(* Round trip of the image of every small automaton built by the double-array model, with every   *)
(* value width and several trailing byte strings: Decode(Encode(a) \o t) = <<a, t>> and            *)
(* Encode(Decode(b).a) is the consumed prefix (C09 at design level).                               *)
EXTENDS Format, DoubleArray, TLC
CONSTANTS Alpha, MaxPatLen, MaxPats, BLOCK, Widths, Trails
VARIABLES img, w, trail
SeqsUpTo(S, n) == UNION {[1..k -> S] : k \in 0..n}
AllPats == SeqsUpTo(Alpha, MaxPatLen) \ {<<>>}
PatSets == {S \in SUBSET AllPats : Cardinality(S) \in 1..MaxPats}
LexLess(a, b) == \E k \in 1..(Len(a) + 1) :
                   /\ \A j \in 1..(k - 1) : j <= Len(b) /\ a[j] = b[j]
                   /\ \/ k = Len(a) + 1 /\ Len(b) >= k
                      \/ k <= Len(a) /\ k <= Len(b) /\ a[k] < b[k]
KindByte(kd) == CASE kd = "STD" -> 0 [] kd = "LL" -> 1 [] kd = "LF" -> 2
ImageOf(var, ps, kd, nfb) ==
  LET n  == BuildNfa(ps, [i \in 1..Len(ps) |-> Len(ps[i])], kd).nfa
      bl == IF var = "B" THEN BLOCK ELSE CharBlockLen(ps)
      mp == IF var = "B" THEN <<>> ELSE Mapper(ps)
      d  == BuildDA(var, bl, mp, n, nfb)
      len == Cardinality(DOMAIN d.st)
      mx == IF var = "B" THEN 0 ELSE CHOOSE c \in CharsOf(ps) : \A c2 \in CharsOf(ps) : c2 <= c
  IN [var |-> var, st |-> [i \in 1..len |-> d.st[i - 1]],
      table |-> IF var = "B" THEN <<>> ELSE [c \in 1..(mx + 1) |-> IF (c - 1) \in DOMAIN mp THEN mp[c - 1] ELSE 255],
      alpha |-> IF var = "B" THEN 0 ELSE Cardinality(CharsOf(ps)),
      outs |-> [k \in 1..Len(n.outs) |-> [v |-> n.outs[k].v * 37, len |-> n.outs[k].len, parent |-> n.outs[k].parent]],
      kind |-> KindByte(kd), nstates |-> Len(n.st) - 1]
Init == \E S \in PatSets, kd \in {"STD", "LL", "LF"}, var \in {"B", "C"}, ww \in Widths, t \in Trails :
          /\ img = ImageOf(var, SetToSortSeq(S, LexLess), kd, 2) /\ w = ww /\ trail = t
Next == UNCHANGED <<img, w, trail>>
Spec == Init /\ [][Next]_<<img, w, trail>>
TrailsDef == {<<>>, <<1, 2, 3>>}
\* a value of width w holds v mod 256^w (width 0 is the unit type `Empty`)
Fit(a, ww) == [a EXCEPT !.outs = [k \in 1..Len(a.outs) |-> [a.outs[k] EXCEPT !.v = IF ww >= 3 THEN @ ELSE @ % (256 ^ ww)]]]
RoundTrip ==
  LET im == Fit(img, w)
      b  == Encode(im, w)
      d  == Decode(im.var, b \o trail, w) IN
  /\ d.a = im /\ d.rest = trail
  /\ Encode(d.a, w) = b
\* an unknown match-kind byte is read as Standard: decoding is not injective on arbitrary bytes
UnknownKind ==
  LET b  == Encode([img EXCEPT !.kind = 7], w) IN Decode(img.var, b, w).a.kind = 0
=============================================================================
