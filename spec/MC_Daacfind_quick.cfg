CONSTANTS
  Alpha = {0,1}
  MaxPatLen = 3
  MaxPats = 2
  MaxLine = 5
SPECIFICATION Spec
INVARIANT Filter Colour
CHECK_DEADLOCK FALSE
