------------------------------ MODULE Daachorse ------------------------------
(***************************************************************************)
(* API composition: several automata and several live iterators, next()    *)
(* calls interleaved arbitrarily, serialisation round trips at arbitrary    *)
(* points.  Iterators hold a reference to an immutable automaton; a search  *)
(* action changes only the iterator it is applied to (P-pure, C14); an      *)
(* iterator obtained through the byte-iterator entry point has pulled       *)
(* exactly up to the end of the match it returns (P-lazy, C12); a restored  *)
(* automaton is the same abstract automaton (C09).                          *)
(* `hist` records every action with the result the specification expects;  *)
(* TLC prints it for the replayer (spec -> code) when a behaviour is        *)
(* complete.  It is excluded from the fingerprint by the VIEW.              *)
(***************************************************************************)
EXTENDS Naturals, Sequences, FiniteSets, TLC, SequencesExt, FiniteSetsExt, Json, Semantics, Search, Utf8

CONSTANTS Menu,        \* sequence of [pats, kind]: the collections that may be built
          Hays,        \* set of haystacks
          MaxAutos, MaxIters, MaxActs

VARIABLES autos, iters, hist, nact
vars == <<autos, iters, hist, nact>>
View == <<autos, iters, nact>>

Init == autos = <<>> /\ iters = <<>> /\ hist = <<>> /\ nact = 0

NfaOf(m) == BuildNfa(m.pats, [i \in 1..Len(m.pats) |-> Len(m.pats[i])], m.kind).nfa

Build(k) ==
  /\ Len(autos) < MaxAutos /\ nact < MaxActs
  /\ autos' = Append(autos, [pats |-> Menu[k].pats, kind |-> Menu[k].kind, nfa |-> NfaOf(Menu[k]),
                             restored |-> FALSE])
  /\ hist' = Append(hist, [op |-> "build", h |-> Len(autos) + 1, pats |-> Menu[k].pats,
                           kind |-> Menu[k].kind])
  /\ nact' = nact + 1 /\ UNCHANGED iters

RoundTrip(h) ==
  /\ Len(autos) < MaxAutos /\ nact < MaxActs
  /\ autos' = Append(autos, [autos[h] EXCEPT !.restored = TRUE])
  /\ hist' = Append(hist, [op |-> "roundtrip", h |-> h, h2 |-> Len(autos) + 1])
  /\ nact' = nact + 1 /\ UNCHANGED iters

\* (An iterator borrows its automaton immutably for its whole life: the record keeps that automaton, `aut`.)
\* Clone: a second handle for the same abstract automaton.  CloneFrom(d, s): the automaton behind handle d
\* is overwritten in place by a copy of s (`Clone::clone_from`); Rust's borrow rules allow it only while no
\* iterator borrows d, i.e. every iterator created on d has been consumed (`gone`).
Clone(h) ==
  /\ Len(autos) < MaxAutos /\ nact < MaxActs
  /\ autos' = Append(autos, autos[h])
  /\ hist' = Append(hist, [op |-> "clone", h |-> h, h2 |-> Len(autos) + 1])
  /\ nact' = nact + 1 /\ UNCHANGED iters

CloneFrom(d, s) ==
  /\ nact < MaxActs /\ d # s
  /\ \A i \in 1..Len(iters) : iters[i].h = d => iters[i].gone
  /\ autos' = [autos EXCEPT ![d] = autos[s]]
  \* the consumed iterators of d keep their results; they refer to the automaton they were created on
  /\ iters' = [i \in 1..Len(iters) |-> IF iters[i].h = d THEN [iters[i] EXCEPT !.h = 0] ELSE iters[i]]
  /\ hist' = Append(hist, [op |-> "clone_from", d |-> d, s |-> s])
  /\ nact' = nact + 1

MethodsOf(kd) == IF kd = "STD" THEN {"ov", "find", "nosuf"} ELSE {"lm"}

\* entry "stream": a resumable byte source that has delivered only `avail` symbols so far and answers
\* None when they are used up; more arrive later (action Arrive).  The overlapping and no-suffix
\* iterators keep their state across such a pause.
NewIterator(h, m, entry, hay) ==
  /\ Len(iters) < MaxIters /\ nact < MaxActs
  /\ m \in MethodsOf(autos[h].kind) /\ (m = "lm" => entry = "slice")
  /\ (entry = "stream" => m \in {"ov", "nosuf"})
  /\ iters' = Append(iters, [h |-> h, aut |-> autos[h], m |-> m, entry |-> entry, hay |-> hay, it |-> NewIter(m),
                             out |-> <<>>, done |-> FALSE, gone |-> FALSE, lastres |-> "new",
                             avail |-> IF entry = "stream" THEN 0 ELSE Len(hay)])
  /\ hist' = Append(hist, [op |-> "iter", it |-> Len(iters) + 1, h |-> h, method |-> m,
                           entry |-> entry, hay |-> hay])
  /\ nact' = nact + 1 /\ UNCHANGED autos

Arrive(i, n) ==
  /\ nact < MaxActs
  /\ ~iters[i].gone /\ iters[i].entry = "stream" /\ n > iters[i].avail /\ n <= Len(iters[i].hay)
  /\ iters' = [iters EXCEPT ![i].avail = n, ![i].done = FALSE]
  /\ hist' = Append(hist, [op |-> "arrive", it |-> i, avail |-> n])
  /\ nact' = nact + 1 /\ UNCHANGED autos

NextOn(i) ==
  /\ nact < MaxActs /\ ~iters[i].gone
  /\ LET ir == iters[i]
         sy == SubSeq(ByteSyms(ir.hay), 1, ir.avail)
         r  == NextCall(ir.aut.nfa, ir.it, sy, "B") IN
     /\ iters' = [iters EXCEPT ![i].it = r.it,
                               ![i].out = IF r.m = <<>> THEN @ ELSE Append(@, r.m),
                               ![i].done = (r.m = <<>>),
                               ![i].lastres = IF r.m = <<>> THEN "none" ELSE "match"]
     /\ hist' = Append(hist, [op |-> "next", it |-> i, res |-> IF r.m = <<>> THEN <<>> ELSE <<r.m>>,
                              pulled |-> IF ir.m = "lm" THEN 0 ELSE Pulled(r.it, sy)])
  /\ nact' = nact + 1 /\ UNCHANGED autos

\* Internal iteration: the iterator is handed by value to fold / for_each / count / last of the
\* Iterator trait, which drive it to exhaustion in one call (an implementation may override them
\* with a fused loop: that loop must produce what repeated next() calls produce from the
\* iterator's CURRENT state, pending outputs of the overlapping iterator included).
Drain(i, mode) ==
  /\ nact < MaxActs /\ ~iters[i].gone
  /\ LET ir == iters[i]
         sy == SubSeq(ByteSyms(ir.hay), 1, ir.avail)
         r  == RunN(ir.aut.nfa, ir.it, sy, "B", (Len(sy) + 1) * (Len(ir.aut.nfa.outs) + 1) + 1) IN
     /\ iters' = [iters EXCEPT ![i].it = r.it, ![i].out = @ \o r.ms, ![i].done = TRUE,
                               ![i].gone = TRUE, ![i].lastres = "none"]
     /\ hist' = Append(hist, [op |-> "drain", it |-> i, mode |-> mode, res |-> r.ms])
  /\ nact' = nact + 1 /\ UNCHANGED autos

Next == \/ \E k \in 1..Len(Menu) : Build(k)
        \/ \E h \in 1..Len(autos) : RoundTrip(h)
        \/ \E h \in 1..Len(autos) : Clone(h)
        \/ \E d, s \in 1..Len(autos) : CloneFrom(d, s)
        \/ \E h \in 1..Len(autos), m \in {"ov", "find", "nosuf", "lm"}, e \in {"slice", "iter", "stream"},
              hay \in Hays : NewIterator(h, m, e, hay)
        \/ \E i \in 1..Len(iters) : NextOn(i)
        \/ \E i \in 1..Len(iters), mode \in {"fold", "for_each", "count", "last"} : Drain(i, mode)
        \/ \E i \in 1..Len(iters) : \E n \in 1..Len(iters[i].hay) : Arrive(i, n)
Spec == Init /\ [][Next]_vars

\* ---- theorems --------------------------------------------------------------------------------
\* P-pure / C14, C12: however the calls are interleaved, every iterator has produced a prefix of
\* what an uninterrupted run of the same search produces, and the whole of it once exhausted
Solo(ir) == RunAll(ir.aut.nfa, ir.m, ByteSyms(ir.hay), "B").ms
Interleaved ==
  \A i \in 1..Len(iters) :
    LET ir == iters[i] so == Solo(ir) IN
    /\ Len(ir.out) <= Len(so) /\ SubSeq(so, 1, Len(ir.out)) = ir.out
    /\ (ir.done /\ ir.avail = Len(ir.hay)) => ir.out = so
    \* a paused stream has reported everything that ends inside what has arrived
    /\ ir.done => \A k \in 1..Len(so) : so[k][2] <= ir.avail => k <= Len(ir.out)
\* and that uninterrupted run means what Semantics says (restored automata included: C09)
Meaning ==
  \A i \in 1..Len(iters) :
    Solo(iters[i]) = Expected(iters[i].m, iters[i].aut.kind, iters[i].aut.pats, iters[i].hay)
\* P-lazy (C12)
Lazy ==
  \A i \in 1..Len(iters) :
    LET ir == iters[i] IN
    /\ (ir.m # "lm" /\ ir.lastres = "match" /\ ir.it.pend = 0 =>
          Pulled(ir.it, ByteSyms(ir.hay)) = ir.out[Len(ir.out)][2])
    /\ (ir.m # "lm" => Pulled(ir.it, ByteSyms(ir.hay)) <= ir.avail)

\* ---- replay output: one line per complete behaviour ---------------------------------------------
Emit == nact = MaxActs => PrintT(<<"REPLAY", ToJson([t |-> "history", ops |-> hist])>>)
=============================================================================
