------------------------------ MODULE Daachorse ------------------------------
(***************************************************************************)
(* API composition: several automata and several live iterators, next()    *)
(* calls interleaved arbitrarily, serialisation round trips at arbitrary    *)
(* points.  Iterators hold a reference to an immutable automaton; a search  *)
(* action changes only the iterator it is applied to (P-pure, C14); an      *)
(* iterator obtained through the byte-iterator entry point has pulled       *)
(* exactly up to the end of the match it returns (P-lazy, C12); a restored  *)
(* automaton is the same abstract automaton (C09).                          *)
(* `hist` records every action with the result the specification expects;  *)
(* TLC prints it for the replayer (spec -> code) when a behaviour is        *)
(* complete.  It is excluded from the fingerprint by the VIEW.              *)
(***************************************************************************)
EXTENDS Naturals, Sequences, FiniteSets, TLC, SequencesExt, FiniteSetsExt, Json, Semantics, Search, Utf8

CONSTANTS Menu,        \* sequence of [pats, kind]: the collections that may be built
          Hays,        \* set of haystacks
          MaxAutos, MaxIters, MaxActs

VARIABLES autos, iters, hist, nact
vars == <<autos, iters, hist, nact>>
View == <<autos, iters, nact>>

Init == autos = <<>> /\ iters = <<>> /\ hist = <<>> /\ nact = 0

NfaOf(m) == BuildNfa(m.pats, [i \in 1..Len(m.pats) |-> Len(m.pats[i])], m.kind).nfa

Build(k) ==
  /\ Len(autos) < MaxAutos /\ nact < MaxActs
  /\ autos' = Append(autos, [pats |-> Menu[k].pats, kind |-> Menu[k].kind, nfa |-> NfaOf(Menu[k]),
                             restored |-> FALSE])
  /\ hist' = Append(hist, [op |-> "build", h |-> Len(autos) + 1, pats |-> Menu[k].pats,
                           kind |-> Menu[k].kind])
  /\ nact' = nact + 1 /\ UNCHANGED iters

RoundTrip(h) ==
  /\ Len(autos) < MaxAutos /\ nact < MaxActs
  /\ autos' = Append(autos, [autos[h] EXCEPT !.restored = TRUE])
  /\ hist' = Append(hist, [op |-> "roundtrip", h |-> h, h2 |-> Len(autos) + 1])
  /\ nact' = nact + 1 /\ UNCHANGED iters

MethodsOf(kd) == IF kd = "STD" THEN {"ov", "find", "nosuf"} ELSE {"lm"}

\* entry "stream": a resumable byte source that has delivered only `avail` symbols so far and answers
\* None when they are used up; more arrive later (action Arrive).  The overlapping and no-suffix
\* iterators keep their state across such a pause.
NewIterator(h, m, entry, hay) ==
  /\ Len(iters) < MaxIters /\ nact < MaxActs
  /\ m \in MethodsOf(autos[h].kind) /\ (m = "lm" => entry = "slice")
  /\ (entry = "stream" => m \in {"ov", "nosuf"})
  /\ iters' = Append(iters, [h |-> h, m |-> m, entry |-> entry, hay |-> hay, it |-> NewIter(m),
                             out |-> <<>>, done |-> FALSE, lastres |-> "new",
                             avail |-> IF entry = "stream" THEN 0 ELSE Len(hay)])
  /\ hist' = Append(hist, [op |-> "iter", it |-> Len(iters) + 1, h |-> h, method |-> m,
                           entry |-> entry, hay |-> hay])
  /\ nact' = nact + 1 /\ UNCHANGED autos

Arrive(i, n) ==
  /\ nact < MaxActs
  /\ iters[i].entry = "stream" /\ n > iters[i].avail /\ n <= Len(iters[i].hay)
  /\ iters' = [iters EXCEPT ![i].avail = n, ![i].done = FALSE]
  /\ hist' = Append(hist, [op |-> "arrive", it |-> i, avail |-> n])
  /\ nact' = nact + 1 /\ UNCHANGED autos

NextOn(i) ==
  /\ nact < MaxActs
  /\ LET ir == iters[i]
         sy == SubSeq(ByteSyms(ir.hay), 1, ir.avail)
         r  == NextCall(autos[ir.h].nfa, ir.it, sy, "B") IN
     /\ iters' = [iters EXCEPT ![i].it = r.it,
                               ![i].out = IF r.m = <<>> THEN @ ELSE Append(@, r.m),
                               ![i].done = (r.m = <<>>),
                               ![i].lastres = IF r.m = <<>> THEN "none" ELSE "match"]
     /\ hist' = Append(hist, [op |-> "next", it |-> i, res |-> IF r.m = <<>> THEN <<>> ELSE <<r.m>>,
                              pulled |-> IF ir.m = "lm" THEN 0 ELSE Pulled(r.it, sy)])
  /\ nact' = nact + 1 /\ UNCHANGED autos

Next == \/ \E k \in 1..Len(Menu) : Build(k)
        \/ \E h \in 1..Len(autos) : RoundTrip(h)
        \/ \E h \in 1..Len(autos), m \in {"ov", "find", "nosuf", "lm"}, e \in {"slice", "iter", "stream"},
              hay \in Hays : NewIterator(h, m, e, hay)
        \/ \E i \in 1..Len(iters) : NextOn(i)
        \/ \E i \in 1..Len(iters) : \E n \in 1..Len(iters[i].hay) : Arrive(i, n)
Spec == Init /\ [][Next]_vars

\* ---- theorems --------------------------------------------------------------------------------
\* P-pure / C14, C12: however the calls are interleaved, every iterator has produced a prefix of
\* what an uninterrupted run of the same search produces, and the whole of it once exhausted
Solo(ir) == RunAll(autos[ir.h].nfa, ir.m, ByteSyms(ir.hay), "B").ms
Interleaved ==
  \A i \in 1..Len(iters) :
    LET ir == iters[i] so == Solo(ir) IN
    /\ Len(ir.out) <= Len(so) /\ SubSeq(so, 1, Len(ir.out)) = ir.out
    /\ (ir.done /\ ir.avail = Len(ir.hay)) => ir.out = so
    \* a paused stream has reported everything that ends inside what has arrived
    /\ ir.done => \A k \in 1..Len(so) : so[k][2] <= ir.avail => k <= Len(ir.out)
\* and that uninterrupted run means what Semantics says (restored automata included: C09)
Meaning ==
  \A i \in 1..Len(iters) :
    Solo(iters[i]) = Expected(iters[i].m, autos[iters[i].h].kind, autos[iters[i].h].pats, iters[i].hay)
\* P-lazy (C12)
Lazy ==
  \A i \in 1..Len(iters) :
    LET ir == iters[i] IN
    /\ (ir.m # "lm" /\ ir.lastres = "match" /\ ir.it.pend = 0 =>
          Pulled(ir.it, ByteSyms(ir.hay)) = ir.out[Len(ir.out)][2])
    /\ (ir.m # "lm" => Pulled(ir.it, ByteSyms(ir.hay)) <= ir.avail)

\* ---- replay output: one line per complete behaviour ---------------------------------------------
Emit == nact = MaxActs => PrintT(<<"REPLAY", ToJson([t |-> "history", ops |-> hist])>>)
=============================================================================
