------------------------------- MODULE MC_Window -------------------------------
(***************************************************************************)
(* Window form of the standard searches: an argument over haystacks of     *)
(* EVERY length.  After any text, the state of the persistent iterators    *)
(* (overlapping, no-suffix) is the longest suffix of the last MaxPatLen    *)
(* symbols that is a trie node, and its output chain lists exactly the     *)
(* patterns that are suffixes of that window, longest first; the resetting *)
(* iterator (find_iter) is the same relative to the text since its last    *)
(* reported match.  The state space <<automaton, node, window>> is finite, *)
(* so TLC closes the graph although the text grows without bound.          *)
(***************************************************************************)
EXTENDS Naturals, Sequences, FiniteSets, TLC, SequencesExt, FiniteSetsExt, Semantics, Search

CONSTANTS Alpha, MaxPatLen, MaxPats

VARIABLES pats, nfa, phase, s, win, sf, winf
vars == <<pats, nfa, phase, s, win, sf, winf>>

SeqsUpTo(S, n) == UNION {[1..k -> S] : k \in 0..n}
AllPats == SeqsUpTo(Alpha, MaxPatLen) \ {<<>>}

LastN(w, k) == IF Len(w) <= k THEN w ELSE SubSeq(w, Len(w) - k + 1, Len(w))
Pref(n) == {StrOf(n)[x] : x \in Nodes(n)}
LongestSuffixIn(S, w) ==
  CHOOSE u \in S : IsSuffixOf(u, w) /\ \A v \in S : IsSuffixOf(v, w) => Len(v) <= Len(u)
SufPats(ps, w) == {i \in 1..Len(ps) : IsSuffixOf(ps[i], w)}
ExpChain(ps, w) == SetToSortSeq({<<Len(ps[i]), i>> : i \in SufPats(ps, w)}, LAMBDA a, b : a[1] > b[1])

Init == /\ pats = <<>> /\ nfa = EmptyNfa /\ phase = "add"
        /\ s = ROOT /\ win = <<>> /\ sf = ROOT /\ winf = <<>>

Add(p) == /\ phase = "add" /\ Len(pats) < MaxPats
          /\ \A i \in 1..Len(pats) : pats[i] # p
          /\ nfa' = AddPattern(nfa, p, Len(pats) + 1, Len(p), "STD").nfa
          /\ pats' = Append(pats, p) /\ UNCHANGED <<phase, s, win, sf, winf>>
Finish == /\ phase = "add" /\ Len(pats) >= 1 /\ nfa' = Finalize(nfa, "STD") /\ phase' = "run"
          /\ UNCHANGED <<pats, s, win, sf, winf>>
\* one more symbol of an unbounded text
Feed(c) == /\ phase = "run"
           /\ s' = NextState(nfa, s, c) /\ win' = LastN(Append(win, c), MaxPatLen)
           /\ LET t == NextState(nfa, sf, c) IN
              IF nfa.st[t].opos # 0 THEN sf' = ROOT /\ winf' = <<>>     \* find_iter restarts
              ELSE sf' = t /\ winf' = LastN(Append(winf, c), MaxPatLen)
           /\ UNCHANGED <<pats, nfa, phase>>
Next == (\E p \in AllPats : Add(p)) \/ Finish \/ (\E c \in Alpha : Feed(c))
Spec == Init /\ [][Next]_vars

WindowInv == phase = "run" =>
  /\ StrOf(nfa)[s] = LongestSuffixIn(Pref(nfa), win)
  /\ ChainOf(nfa.outs, nfa.st[s].opos) = ExpChain(pats, win)        \* C01, C05 for every length
  /\ StrOf(nfa)[sf] = LongestSuffixIn(Pref(nfa), winf)
  /\ SufPats(pats, winf) = {}                                       \* C02: nothing missed between matches

\* C02: find_iter emits exactly when a pattern ends in the text since the last match, and then
\* the longest such pattern
EmitOK == [][phase = "run" /\ phase' = "run" =>
             \A c \in Alpha :
               LET t == NextState(nfa, sf, c)
                   w == LastN(Append(winf, c), MaxPatLen) IN
               /\ (nfa.st[t].opos # 0) = (SufPats(pats, w) # {})
               /\ nfa.st[t].opos # 0 =>
                    <<nfa.outs[nfa.st[t].opos].len, nfa.outs[nfa.st[t].opos].v>> = ExpChain(pats, w)[1]]_vars

\* C13 for every length: each step's fail hops are paid for by depth lost (potential argument)
HopsPaid == [][phase = "run" /\ phase' = "run" =>
               \A c \in Alpha :
                 LET r == NextStateR(nfa, s, c, FALSE) IN
                 r.hops <= Len(StrOf(nfa)[s]) + 1 - Len(StrOf(nfa)[r.t])
                 /\ r.probes = r.hops + 1]_vars
=============================================================================
