CONSTANTS
  Alpha = {0,1}
  MaxPatLen = 3
  MaxPats = 3
  MaxLine = 6
SPECIFICATION Spec
INVARIANT Filter Colour
CHECK_DEADLOCK FALSE
