------------------------------ MODULE Amortized ------------------------------
(***************************************************************************)
(* The potential argument behind "at most 2n transitions" (C13), over      *)
(* unbounded integers: depth = depth of the current state, gotos = child   *)
(* transitions taken, hops = fail links followed, n = symbols consumed.    *)
(* Consuming a symbol follows k <= depth fail links, each lowering the     *)
(* depth by at least one, then either takes a goto (depth + 1) or stays at *)
(* the root.  find_iter additionally resets to the root after a match.     *)
(* IndInv is inductive and implies Bound, for texts of ANY length.         *)
(* MC_Search / MC_Window (HopsPaid) tie every step of module Search to a   *)
(* Consume step under depth = |string of the state|.                       *)
(* Checked by Apalache: Init => IndInv; IndInv /\ Next => IndInv';         *)
(* IndInv => Bound.                                                        *)
(***************************************************************************)
EXTENDS Integers
VARIABLES
  \* @type: Int;
  depth,
  \* @type: Int;
  gotos,
  \* @type: Int;
  hops,
  \* @type: Int;
  n

Init == depth = 0 /\ gotos = 0 /\ hops = 0 /\ n = 0
Consume == \E k \in 0..depth : \E d \in 0..(depth - k) :
             /\ hops' = hops + k
             /\ n' = n + 1
             /\ \/ depth' = d + 1 /\ gotos' = gotos + 1
                \/ d = 0 /\ depth' = 0 /\ gotos' = gotos
Reset == depth' = 0 /\ UNCHANGED <<gotos, hops, n>>
Next == Consume \/ Reset
IndInv == /\ depth >= 0 /\ gotos >= 0 /\ hops >= 0 /\ n >= 0
          /\ gotos <= n
          /\ hops + depth <= gotos
IndInit == depth \in Int /\ gotos \in Int /\ hops \in Int /\ n \in Int /\ IndInv
\* probes = gotos + hops + (steps that stay at the root) <= n + hops <= 2n
Bound == hops <= n /\ gotos + hops <= 2 * n
=============================================================================
