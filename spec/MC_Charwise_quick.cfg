CONSTANTS
  PatChars = {97, 233, 19990}
  HayChars = {97, 233, 19990, 122, 128512}
  MaxPatLen = 2
  MaxPats = 2
  MaxHay = 3
  Kinds = {"STD","LL","LF"}
SPECIFICATION Spec
INVARIANT Agree Boundaries Lazy
CHECK_DEADLOCK FALSE
