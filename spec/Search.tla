-------------------------------- MODULE Search --------------------------------
(***************************************************************************)
(* The transition functions and the four iterators of both variants,       *)
(* transcribed loop by loop:                                               *)
(*   next_state_id_unchecked / _leftmost_unchecked                         *)
(*        src/bytewise.rs:654-706, src/charwise.rs:695-759                 *)
(*   FindIterator, FindOverlappingIterator, FindOverlappingNoSuffixIterator*)
(*   LestmostFindIterator   src/bytewise/iter.rs, src/charwise/iter.rs     *)
(*                                                                         *)
(* An automaton `aut` is a record with `st` (per state: edges, fail, opos) *)
(* and `outs`; the abstract NFA of module Nfa has this shape, and so has   *)
(* the view DoubleArray!Decoded of a double array.  If `aut` has a field   *)
(* `alpha` (char-wise: the code mapper's domain), labels outside it        *)
(* short-circuit to the root before any table access.                      *)
(*                                                                         *)
(* The haystack is a symbol stream: a sequence of <<end offset, label>>    *)
(* (Utf8!ByteSyms for bytes, Utf8!DecodeAll for UTF-8 text).               *)
(* Ghost results: `probes` (loop iterations = table probes) and `hops`     *)
(* (fail links followed) -- C13.                                           *)
(***************************************************************************)
EXTENDS Naturals, Sequences, FiniteSets, Nfa

Mapped(aut, c) == "alpha" \notin DOMAIN aut \/ c \in aut.alpha

\* [t, probes, hops]; lm = leftmost variant (dead fail => root)
RECURSIVE NextStateG(_, _, _, _, _, _)
NextStateG(aut, s, c, lm, p, h) ==
  LET ch == Child(aut, s, c) IN
  IF ch # 0 THEN [t |-> ch, probes |-> p + 1, hops |-> h]
  ELSE IF s = ROOT THEN [t |-> ROOT, probes |-> p + 1, hops |-> h]
  ELSE LET f == aut.st[s].fail IN
       IF lm /\ f = DEAD THEN [t |-> ROOT, probes |-> p + 1, hops |-> h]
       ELSE NextStateG(aut, f, c, lm, p + 1, h + 1)

NextStateR(aut, s, c, lm) ==
  IF Mapped(aut, c) THEN NextStateG(aut, s, c, lm, 0, 0)
  ELSE [t |-> ROOT, probes |-> 0, hops |-> 0]

NextState(aut, s, c)         == NextStateR(aut, s, c, FALSE).t
NextStateLeftmost(aut, s, c) == NextStateR(aut, s, c, TRUE).t

Mk(aut, op, end) == LET o == aut.outs[op] IN <<end - o.len, end, o.v>>

\* ---- iterator records ------------------------------------------------------
\* m      method: "find" | "ov" | "nosuf" | "lm"
\* s      automaton state kept between calls (ov, nosuf); call-local otherwise
\* k      symbols consumed from the source so far (find, ov, nosuf)
\* pos    ov: end of the match group being reported; lm: resume offset
\* pend   ov: next output position of the pending chain (0: none)
\* probes, hops: ghost counters
NewIter(method) ==
  [m |-> method, s |-> ROOT, k |-> 0, pos |-> 0, pend |-> 0, probes |-> 0, hops |-> 0]

Pulled(it, syms) == IF it.k = 0 THEN 0 ELSE syms[it.k][1]

\* one loop iteration of the three source-driven iterators: consume symbol k+1
\* result: [it, m]  (m = <<>>: nothing emitted)
PullStep(aut, it, syms) ==
  LET sym == syms[it.k + 1]
      r   == NextStateR(aut, it.s, sym[2], FALSE)
      op  == aut.st[r.t].opos
      it1 == [it EXCEPT !.s = r.t, !.k = @ + 1,
                        !.probes = @ + r.probes, !.hops = @ + r.hops]
  IN IF op = 0 THEN [it |-> it1, m |-> <<>>]
     ELSE IF it.m = "ov"
          THEN [it |-> [it1 EXCEPT !.pos = sym[1], !.pend = aut.outs[op].parent],
                m |-> Mk(aut, op, sym[1])]
          ELSE [it |-> it1, m |-> Mk(aut, op, sym[1])]

\* the scan loop: pull symbols until something is emitted or symbol number `hi` has been consumed
\* (evaluated by divide and conquer: logarithmic recursion depth)
RECURSIVE ScanTo(_, _, _, _)
ScanTo(aut, it, syms, hi) ==
  IF it.k >= hi THEN [it |-> it, m |-> <<>>]
  ELSE IF hi - it.k = 1 THEN PullStep(aut, it, syms)
  ELSE LET mid == it.k + (hi - it.k) \div 2
           a   == ScanTo(aut, it, syms, mid)
       IN IF a.m # <<>> THEN a ELSE ScanTo(aut, a.it, syms, hi)
ScanLoop(aut, it, syms) == ScanTo(aut, it, syms, Len(syms))

\* ---- leftmost iterator (slice based) --------------------------------------
\* var = "B": self.pos = pos + 1 ; var = "C": self.pos += skips; skips = 0
\* one loop iteration on symbol c.j; c = [j, s, last, pos, skips, g, done]
LmStep(aut, syms, var, c) ==
  LET sym    == syms[c.j]
      w      == sym[1] - (IF c.j = 1 THEN 0 ELSE syms[c.j - 1][1])
      skips1 == c.skips + w
      r      == NextStateR(aut, c.s, sym[2], TRUE)
      g1     == [probes |-> c.g.probes + r.probes, hops |-> c.g.hops + r.hops]
  IN
  IF r.t = ROOT THEN
     IF c.last # 0 THEN [c EXCEPT !.done = TRUE, !.g = g1]        \* return the candidate
     ELSE [c EXCEPT !.j = @ + 1, !.s = r.t, !.skips = skips1, !.g = g1]
  ELSE IF aut.st[r.t].opos # 0 THEN
     [c EXCEPT !.j = @ + 1, !.s = r.t, !.last = aut.st[r.t].opos,
               !.pos = IF var = "B" THEN sym[1] ELSE c.pos + skips1, !.skips = 0, !.g = g1]
  ELSE [c EXCEPT !.j = @ + 1, !.s = r.t, !.skips = skips1, !.g = g1]

RECURSIVE LmTo(_, _, _, _, _)
LmTo(aut, syms, var, c, hi) ==
  IF c.done \/ c.j > hi THEN c
  ELSE IF c.j = hi THEN LmStep(aut, syms, var, c)
  ELSE LET mid == (c.j + hi) \div 2
           a   == LmTo(aut, syms, var, c, mid)
       IN IF a.done THEN a ELSE LmTo(aut, syms, var, a, hi)

LmScan(aut, syms, var, j, s, last, pos, skips, g) ==
  LET c == LmTo(aut, syms, var,
                [j |-> j, s |-> s, last |-> last, pos |-> pos, skips |-> skips, g |-> g, done |-> FALSE],
                Len(syms))
  IN [m |-> IF c.last = 0 THEN <<>> ELSE Mk(aut, c.last, c.pos), pos |-> c.pos, g |-> c.g]

LmCall(aut, it, syms, var) ==
  LET j0 == Cardinality({j \in 1..Len(syms) : syms[j][1] <= it.pos}) + 1
      r  == LmScan(aut, syms, var, j0, ROOT, 0, it.pos, 0,
                   [probes |-> it.probes, hops |-> it.hops])
  IN [it |-> [it EXCEPT !.pos = r.pos, !.probes = r.g.probes, !.hops = r.g.hops],
      m  |-> r.m]

\* ---- one next() call --------------------------------------------------------
NextCall(aut, it, syms, var) ==
  CASE it.m = "find"  -> ScanLoop(aut, [it EXCEPT !.s = ROOT], syms)
    [] it.m = "nosuf" -> ScanLoop(aut, it, syms)
    [] it.m = "ov"    ->
         IF it.pend # 0
         THEN [it |-> [it EXCEPT !.pend = aut.outs[it.pend].parent],
               m  |-> Mk(aut, it.pend, it.pos)]
         ELSE ScanLoop(aut, it, syms)
    [] it.m = "lm"    -> LmCall(aut, it, syms, var)

\* all results of an iterator driven to exhaustion; [ms, it].  At most n calls, by divide and conquer.
RECURSIVE RunN(_, _, _, _, _)
RunN(aut, it, syms, var, n) ==
  IF n <= 1 THEN
     LET r == NextCall(aut, it, syms, var) IN
     [ms |-> IF r.m = <<>> THEN <<>> ELSE <<r.m>>, it |-> r.it, done |-> r.m = <<>>]
  ELSE LET h == n \div 2
           a == RunN(aut, it, syms, var, h) IN
       IF a.done THEN a
       ELSE LET b == RunN(aut, a.it, syms, var, n - h) IN
            [ms |-> a.ms \o b.ms, it |-> b.it, done |-> b.done]
\* no search returns more matches than (symbols x output records)
RunAll(aut, method, syms, var) ==
  LET r == RunN(aut, NewIter(method), syms, var, (Len(syms) + 1) * (Len(aut.outs) + 1) + 1)
  IN [ms |-> r.ms, it |-> r.it]
=============================================================================
