-------------------------------- MODULE Search --------------------------------
(***************************************************************************)
(* The transition functions and the four iterators of both variants,       *)
(* transcribed loop by loop:                                               *)
(*   next_state_id_unchecked / _leftmost_unchecked                         *)
(*        src/bytewise.rs:654-706, src/charwise.rs:695-759                 *)
(*   FindIterator, FindOverlappingIterator, FindOverlappingNoSuffixIterator*)
(*   LestmostFindIterator   src/bytewise/iter.rs, src/charwise/iter.rs     *)
(*                                                                         *)
(* An automaton `aut` is a record with `st` (per state: edges, fail, opos) *)
(* and `outs`; the abstract NFA of module Nfa has this shape, and so has   *)
(* the view DoubleArray!Decoded of a double array.  If `aut` has a field   *)
(* `alpha` (char-wise: the code mapper's domain), labels outside it        *)
(* short-circuit to the root before any table access.                      *)
(*                                                                         *)
(* The haystack is a symbol stream: a sequence of <<end offset, label>>    *)
(* (Utf8!ByteSyms for bytes, Utf8!DecodeAll for UTF-8 text).               *)
(* Ghost results: `probes` (loop iterations = table probes) and `hops`     *)
(* (fail links followed) -- C13.                                           *)
(***************************************************************************)
EXTENDS Naturals, Sequences, FiniteSets, Nfa

Mapped(aut, c) == "alpha" \notin DOMAIN aut \/ c \in aut.alpha

\* [t, probes, hops]; lm = leftmost variant (dead fail => root)
RECURSIVE NextStateG(_, _, _, _, _, _)
NextStateG(aut, s, c, lm, p, h) ==
  LET ch == Child(aut, s, c) IN
  IF ch # 0 THEN [t |-> ch, probes |-> p + 1, hops |-> h]
  ELSE IF s = ROOT THEN [t |-> ROOT, probes |-> p + 1, hops |-> h]
  ELSE LET f == aut.st[s].fail IN
       IF lm /\ f = DEAD THEN [t |-> ROOT, probes |-> p + 1, hops |-> h]
       ELSE NextStateG(aut, f, c, lm, p + 1, h + 1)

NextStateR(aut, s, c, lm) ==
  IF Mapped(aut, c) THEN NextStateG(aut, s, c, lm, 0, 0)
  ELSE [t |-> ROOT, probes |-> 0, hops |-> 0]

NextState(aut, s, c)         == NextStateR(aut, s, c, FALSE).t
NextStateLeftmost(aut, s, c) == NextStateR(aut, s, c, TRUE).t

Mk(aut, op, end) == LET o == aut.outs[op] IN <<end - o.len, end, o.v>>

\* ---- iterator records ------------------------------------------------------
\* m      method: "find" | "ov" | "nosuf" | "lm"
\* s      automaton state kept between calls (ov, nosuf); call-local otherwise
\* k      symbols consumed from the source so far (find, ov, nosuf)
\* pos    ov: end of the match group being reported; lm: resume offset
\* pend   ov: next output position of the pending chain (0: none)
\* probes, hops: ghost counters
NewIter(method) ==
  [m |-> method, s |-> ROOT, k |-> 0, pos |-> 0, pend |-> 0, probes |-> 0, hops |-> 0]

Pulled(it, syms) == IF it.k = 0 THEN 0 ELSE syms[it.k][1]

\* one loop iteration of the three source-driven iterators: consume symbol k+1
\* result: [it, m]  (m = <<>>: nothing emitted)
PullStep(aut, it, syms) ==
  LET sym == syms[it.k + 1]
      r   == NextStateR(aut, it.s, sym[2], FALSE)
      op  == aut.st[r.t].opos
      it1 == [it EXCEPT !.s = r.t, !.k = @ + 1,
                        !.probes = @ + r.probes, !.hops = @ + r.hops]
  IN IF op = 0 THEN [it |-> it1, m |-> <<>>]
     ELSE IF it.m = "ov"
          THEN [it |-> [it1 EXCEPT !.pos = sym[1], !.pend = aut.outs[op].parent],
                m |-> Mk(aut, op, sym[1])]
          ELSE [it |-> it1, m |-> Mk(aut, op, sym[1])]

RECURSIVE ScanLoop(_, _, _)
ScanLoop(aut, it, syms) ==
  IF it.k >= Len(syms) THEN [it |-> it, m |-> <<>>]
  ELSE LET r == PullStep(aut, it, syms) IN
       IF r.m # <<>> THEN r ELSE ScanLoop(aut, r.it, syms)

\* ---- leftmost iterator (slice based) --------------------------------------
\* var = "B": self.pos = pos + 1 ; var = "C": self.pos += skips; skips = 0
RECURSIVE LmScan(_, _, _, _, _, _, _, _, _)
LmScan(aut, syms, var, j, s, last, pos, skips, g) ==
  IF j > Len(syms) THEN
     [m |-> IF last = 0 THEN <<>> ELSE Mk(aut, last, pos), pos |-> pos, g |-> g]
  ELSE
    LET sym    == syms[j]
        w      == sym[1] - (IF j = 1 THEN 0 ELSE syms[j - 1][1])
        skips1 == skips + w
        r      == NextStateR(aut, s, sym[2], TRUE)
        g1     == [probes |-> g.probes + r.probes, hops |-> g.hops + r.hops]
    IN
    IF r.t = ROOT THEN
       IF last # 0 THEN [m |-> Mk(aut, last, pos), pos |-> pos, g |-> g1]
       ELSE LmScan(aut, syms, var, j + 1, r.t, last, pos, skips1, g1)
    ELSE IF aut.st[r.t].opos # 0 THEN
       LmScan(aut, syms, var, j + 1, r.t, aut.st[r.t].opos,
              IF var = "B" THEN sym[1] ELSE pos + skips1, 0, g1)
    ELSE LmScan(aut, syms, var, j + 1, r.t, last, pos, skips1, g1)

LmCall(aut, it, syms, var) ==
  LET j0 == Cardinality({j \in 1..Len(syms) : syms[j][1] <= it.pos}) + 1
      r  == LmScan(aut, syms, var, j0, ROOT, 0, it.pos, 0,
                   [probes |-> it.probes, hops |-> it.hops])
  IN [it |-> [it EXCEPT !.pos = r.pos, !.probes = r.g.probes, !.hops = r.g.hops],
      m  |-> r.m]

\* ---- one next() call --------------------------------------------------------
NextCall(aut, it, syms, var) ==
  CASE it.m = "find"  -> ScanLoop(aut, [it EXCEPT !.s = ROOT], syms)
    [] it.m = "nosuf" -> ScanLoop(aut, it, syms)
    [] it.m = "ov"    ->
         IF it.pend # 0
         THEN [it |-> [it EXCEPT !.pend = aut.outs[it.pend].parent],
               m  |-> Mk(aut, it.pend, it.pos)]
         ELSE ScanLoop(aut, it, syms)
    [] it.m = "lm"    -> LmCall(aut, it, syms, var)

\* all results of an iterator driven to exhaustion; [ms, it]
RECURSIVE RunFrom(_, _, _, _, _)
RunFrom(aut, it, syms, var, acc) ==
  LET r == NextCall(aut, it, syms, var) IN
  IF r.m = <<>> THEN [ms |-> acc, it |-> r.it]
  ELSE RunFrom(aut, r.it, syms, var, Append(acc, r.m))
RunAll(aut, method, syms, var) == RunFrom(aut, NewIter(method), syms, var, <<>>)
=============================================================================
