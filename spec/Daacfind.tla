------------------------------- MODULE Daacfind -------------------------------
(***************************************************************************)
(* daacfind/src/main.rs:60-115 (find_and_output) and the line loop of main.*)
(*                                                                         *)
(* Per input line: the line is printed iff the standard non-overlapping    *)
(* search finds anything; with colouring, +1 / -1 counters at the starts   *)
(* and ends of the no-suffix overlapping matches drive a depth machine     *)
(* that switches the colour at every 0 <-> non-0 transition.               *)
(* The searches themselves are the operational model of module Search on   *)
(* the automaton module Nfa builds, so this module composes L1+L3 with the *)
(* CLI logic; module Semantics states what must come out.                  *)
(***************************************************************************)
EXTENDS Naturals, Integers, Sequences, FiniteSets, Semantics, Search, Utf8

\* the automaton the tool builds: DoubleArrayAhoCorasick::<Empty>::new(patterns), standard kind
CliNfa(pats) == BuildNfa(pats, [i \in 1..Len(pats) |-> Len(pats[i])], "STD")

\* ---- colour-depth machine (main.rs:80-112) --------------------------------------------
\* color_counts[m.start] += 1; color_counts[m.end] -= 1 for every no-suffix match
Counts(line, ms) ==
  [p \in 0..Len(line) |->
     Cardinality({i \in 1..Len(ms) : ms[i][1] = p}) - Cardinality({i \in 1..Len(ms) : ms[i][2] = p})]

\* walk over positions 0..len; emits segments <<from, to, coloured>> exactly as the writes do.
\* One loop iteration at position pos on w = [depth, prev, acc]:
WalkStep(cnt, w, pos) ==
  LET nd == w.depth + cnt[pos] IN
  IF w.depth = 0 /\ nd # 0 THEN [depth |-> nd, prev |-> pos, acc |-> Append(w.acc, <<w.prev, pos, FALSE>>)]
  ELSE IF w.depth # 0 /\ nd = 0 THEN [depth |-> nd, prev |-> pos, acc |-> Append(w.acc, <<w.prev, pos, TRUE>>)]
  ELSE [w EXCEPT !.depth = nd]
Walk(cnt, n, pos, depth, prev, acc) ==
  LET w == IterRange(LAMBDA x, p : WalkStep(cnt, x, p), [depth |-> depth, prev |-> prev, acc |-> acc], pos, n)
  IN Append(w.acc, <<w.prev, n, FALSE>>)                \* reset; writeln(&line[prev_pos..])

\* per-byte highlight flags produced by the machine
Highlight(line, ms) ==
  LET segs == Walk(Counts(line, ms), Len(line), 0, 0, 0, <<>>) IN
  <<>> \o [b \in 1..Len(line) |->
     \E k \in 1..Len(segs) : segs[k][3] /\ segs[k][1] < b /\ b <= segs[k][2]]

\* the text written is the concatenation of the segments: it must be the line itself
SegmentsTile(line, ms) ==
  LET segs == Walk(Counts(line, ms), Len(line), 0, 0, 0, <<>>) IN
  /\ segs[1][1] = 0 /\ segs[Len(segs)][2] = Len(line)
  /\ \A k \in 1..(Len(segs) - 1) : segs[k][2] = segs[k + 1][1]
  /\ \A k \in 1..Len(segs) : segs[k][1] <= segs[k][2]

\* ---- operational result for one line ------------------------------------------------------
\* color \in {"never", "always"};  result [printed, hl]
ProcessLine(aut, line, color) ==
  LET syms == ByteSyms(line) IN
  IF color = "never"
  THEN [printed |-> NextCall(aut, NewIter("find"), syms, "B").m # <<>>,
        hl |-> [b \in 1..Len(line) |-> FALSE]]
  ELSE LET ms == RunAll(aut, "nosuf", syms, "B").ms IN
       [printed |-> ms # <<>>, hl |-> Highlight(line, ms)]

\* ---- declarative meaning (C16) ---------------------------------------------------------------
LineMatches(pats, line) == Occ(pats, line) # {}
Covered(pats, line) ==
  LET oc == Occ(pats, line) IN
  [b \in 1..Len(line) |-> \E o \in oc : o[1] < b /\ b <= o[2]]
=============================================================================
