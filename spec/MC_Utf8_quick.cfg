CONSTANT Full = FALSE
SPECIFICATION Spec
CHECK_DEADLOCK FALSE
