-------------------------------- MODULE Replay --------------------------------
(***************************************************************************)
(* spec -> code: the state graph of MC_Search, with one line printed per   *)
(* completed behaviour.  harness/src/replay.rs executes each behaviour on  *)
(* the real API (both variants, several label maps, both construction      *)
(* entry points, several num_free_blocks, slice and iterator entry points) *)
(* and compares the projected state after every action.                    *)
(***************************************************************************)
EXTENDS MC_Search, Json

AllowedSeq == SetToSeq(IF ValidCollection(pats, "with_values", 0) THEN {"ok"}
                       ELSE ApplicableErrors(pats, "with_values", 0))

Emit ==
  /\ phase = "searched" =>
       PrintT(<<"REPLAY", ToJson(
         [t |-> "search", pats |-> pats, kind |-> kind, hay |-> hay,
          num_states |-> Cardinality(Nodes(nfa)),
          res |-> IF kind = "STD"
                  THEN [ov |-> Run("ov").ms, find |-> Run("find").ms, nosuf |-> Run("nosuf").ms]
                  ELSE [lm |-> Run("lm").ms]])>>)
  /\ phase = "error" =>
       PrintT(<<"REPLAY", ToJson(
         [t |-> "build", pats |-> pats, kind |-> kind, outcome |-> outcome,
          allowed |-> AllowedSeq])>>)
=============================================================================
