CONSTANTS
  Alpha = {0,1,2}
  MaxPatLen = 4
  MaxPats = 5
  MaxHay = 9
  Kinds = {"STD","LL","LF"}
SPECIFICATION Spec
INVARIANT Correct CorrectC TErr TTrie TFailStd TFailLm TOutStd TOutRank PHops PLazy
CHECK_DEADLOCK FALSE
