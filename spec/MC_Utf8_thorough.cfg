CONSTANT Full = TRUE
SPECIFICATION Spec
CHECK_DEADLOCK FALSE
