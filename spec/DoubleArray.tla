----------------------------- MODULE DoubleArray -----------------------------
(***************************************************************************)
(* The double-array layout algorithm of both builders over BuildHelper:    *)
(*   src/bytewise/builder.rs:254-389   (var = "B": CHECK = label, used     *)
(*        BASE set, CHECK sanitising of closed and of still-active blocks) *)
(*   src/charwise/builder.rs:251-370, src/charwise/mapper.rs:16-34         *)
(*        (var = "C": frequency-ranked code mapper, CHECK = parent slot,   *)
(*        default CHECK/FAIL = DEAD, block_len = max(2, next_pow2(|alpha|)))*)
(* and the search-side reading of the arrays (child_index_unchecked) with  *)
(* the ghost result OOB for an index outside the array.                    *)
(*                                                                         *)
(* Slots are 0-based as in the code: ROOTI = 0, DEADI = 1.  BASE 0 = None. *)
(***************************************************************************)
EXTENDS Naturals, Integers, Sequences, FiniteSets, TLC, SequencesExt, FiniteSetsExt, Bitwise,
        Nfa, BuildHelper

ROOTI == 0
DEADI == 1
OOB   == -2
NOCH  == -1

\* ---- code mapper (mapper.rs:16-34): codes by descending frequency, ties by code point
LabelOccs(ps) == {<<i, k>> \in (1..Len(ps)) \X (1..FoldLeft(LAMBDA a, p : IF Len(p) > a THEN Len(p) ELSE a, 0, ps)) :
                    k <= Len(ps[i])}
Freq(ps, c)   == Cardinality({o \in LabelOccs(ps) : ps[o[1]][o[2]] = c})
CharsOf(ps)   == {ps[o[1]][o[2]] : o \in LabelOccs(ps)}
Before(ps, a, b) == Freq(ps, a) > Freq(ps, b) \/ (Freq(ps, a) = Freq(ps, b) /\ a < b)
Mapper(ps)    == [c \in CharsOf(ps) |-> Cardinality({d \in CharsOf(ps) : Before(ps, d, c)})]

RECURSIVE NextPow2(_, _)
NextPow2(n, p) == IF p >= n THEN p ELSE NextPow2(n, 2 * p)
CharBlockLen(ps) == LET b == NextPow2(Cardinality(CharsOf(ps)), 1) IN IF b < 2 THEN 2 ELSE b

DefState(var) == IF var = "B" THEN [base |-> 0, check |-> 0, fail |-> 0, opos |-> 0]
                 ELSE [base |-> 0, check |-> DEADI, fail |-> DEADI, opos |-> 0]

\* ---- init_array --------------------------------------------------------------
\* var "B": bl = BLOCK_LEN (a constant of the model; 256 in the code), mp = identity
InitDA(var, bl, mp, n, nfb) ==
  [var |-> var, bl |-> bl, mp |-> mp,
   st |-> [i \in 0..(bl - 1) |-> DefState(var)],
   h  |-> UseIndex(UseIndex(PushBlock(NewHelper(bl, nfb)), ROOTI), DEADI),
   map |-> [x \in 1..Len(n.st) |-> IF x = ROOT THEN ROOTI ELSE DEADI],
   stack |-> <<ROOT>>]

Code(d, label) == IF d.var = "B" THEN label ELSE d.mp[label]

\* edges of a node as <<code, child>> sorted by code (charwise/builder.rs:270-274)
MappedEdges(d, es) ==
  SortSeq([i \in 1..Len(es) |-> <<Code(d, es[i][1]), es[i][2]>>], LAMBDA a, b : a[1] < b[1])

\* ---- find_base / check_valid_base / verify_base ------------------------------
ValidBase(d, b, me) ==
  /\ b # 0
  /\ d.var = "B" => ~IsUsedBase(d.h, b)
  /\ \A i \in 1..Len(me) : ~IsUsedIdx(d.h, b ^^ me[i][1])

\* indices the validity test reads; each must be active or the code panics
BaseReads(d, b, me) == (IF d.var = "B" THEN {b} ELSE {}) \cup {b ^^ me[i][1] : i \in 1..Len(me)}

FindBase(d, me) ==
  LET v  == Vacants(d.h)
      ok == {i \in 1..Len(v) : ValidBase(d, v[i] ^^ me[1][1], me)}
      examined == IF ok = {} THEN 1..Len(v) ELSE 1..Min(ok)
      panic == \E i \in examined : \E x \in BaseReads(d, v[i] ^^ me[1][1], me) : ~InAct(d.h, x)
      b == IF ok = {} THEN (IF d.var = "B" THEN NumEl(d.h) ELSE NumEl(d.h) ^^ me[1][1])
           ELSE v[Min(ok)] ^^ me[1][1]
  IN [b |-> b, panic |-> panic]

\* ---- remove_invalid_checks (bytewise/builder.rs:380-389) ----------------------
Sanitize(d, blk) ==
  LET u == UnusedBaseInBlock(d.h, blk) IN
  IF u = NONE THEN d
  ELSE [d EXCEPT !.st = [i \in DOMAIN @ |->
          IF i \in (blk * d.bl)..(blk * d.bl + d.bl - 1)
             /\ (i = ROOTI \/ i = DEADI \/ ~IsUsedIdx(d.h, i))
          THEN [@[i] EXCEPT !.check = i ^^ u] ELSE @[i]]]

\* ---- extend_array --------------------------------------------------------------
Extend(d) ==
  LET d1 == IF d.var = "B" /\ Dropped(d.h) # NONE THEN Sanitize(d, Dropped(d.h)) ELSE d
      n0 == NumEl(d1.h)
      n1 == n0 + d1.bl
  IN [d1 EXCEPT !.h = PushBlock(@),
                !.st = [i \in 0..(n1 - 1) |-> IF i < n0 THEN d1.st[i] ELSE DefState(d1.var)]]

\* ---- child placement -------------------------------------------------------------
RECURSIVE PlaceKids(_, _, _, _, _)
PlaceKids(d, me, k, b, sidx) ==
  IF k > Len(me) THEN d
  ELSE LET ci == b ^^ me[k][1] IN
       IF ci \notin DOMAIN d.st THEN [d EXCEPT !.h.panic = TRUE]
       ELSE PlaceKids([d EXCEPT !.h = UseIndex(@, ci),
                                !.st[ci].check = IF d.var = "B" THEN me[k][1] ELSE sidx,
                                !.map[me[k][2]] = ci,
                                !.stack = Append(@, me[k][2])],
                      me, k + 1, b, sidx)

\* one iteration of `while let Some(state_id) = stack.pop()`  (PlaceStep)
PlaceStep(n, d) ==
  LET sid == d.stack[Len(d.stack)]
      d0  == [d EXCEPT !.stack = SubSeq(@, 1, Len(@) - 1)]
      es  == n.st[sid].edges IN
  IF Len(es) = 0 THEN d0 ELSE
  LET me == MappedEdges(d0, es)
      fb == FindBase(d0, me)
      b  == fb.b
      d1 == IF NumEl(d0.h) <= b THEN Extend(d0) ELSE d0
      d2 == PlaceKids(d1, me, 1, b, d.map[sid])
      d3 == [d2 EXCEPT !.st[d.map[sid]].base = b]
      d4 == IF d.var = "B" THEN [d3 EXCEPT !.h = UseBase(@, b)] ELSE d3
  IN IF fb.panic THEN [d4 EXCEPT !.h.panic = TRUE] ELSE d4

\* second pass: fail and output_pos (LinkStep for every node), final sanitising
RECURSIVE Link(_, _, _)
Link(n, d, x) ==
  IF x > Len(n.st) THEN d
  ELSE IF x = DEAD THEN Link(n, d, x + 1)
  ELSE LET idx == d.map[x]
           f   == n.st[x].fail
       IN Link(n, [d EXCEPT !.st[idx].opos = n.st[x].opos,
                            !.st[idx].fail = IF f = DEAD THEN DEADI ELSE d.map[f]], x + 1)

RECURSIVE FinalSan(_, _)
FinalSan(d, blks) ==
  IF blks = {} THEN d
  ELSE LET b == CHOOSE x \in blks : \A y \in blks : x <= y IN FinalSan(Sanitize(d, b), blks \ {b})

Finish(n, d) ==
  LET d1 == Link(n, d, 1) IN
  IF d.var = "B" THEN FinalSan(d1, ActBlocks(d1.h)) ELSE d1

RECURSIVE PlaceAll(_, _)
PlaceAll(n, d) == IF Len(d.stack) = 0 \/ d.h.panic THEN d ELSE PlaceAll(n, PlaceStep(n, d))

BuildDA(var, bl, mp, n, nfb) == Finish(n, PlaceAll(n, InitDA(var, bl, mp, n, nfb)))

\* ---- search-side reading: child_index_unchecked with the ghost OOB --------------------
DAChild(d, i, code) ==
  IF i \notin DOMAIN d.st THEN OOB
  ELSE IF d.st[i].base = 0 THEN NOCH
  ELSE LET ci == d.st[i].base ^^ code IN
       IF ci \notin DOMAIN d.st THEN OOB
       ELSE IF d.var = "B"
            THEN (IF d.st[ci].check = code THEN ci ELSE NOCH)
            ELSE (IF d.st[ci].check = i THEN ci ELSE NOCH)

\* The automaton a double array encodes, in the shape module Search works on
\* (state index = slot + 1).  labels: the labels to read (all bytes / the mapper's domain).
Decoded(d, outs, labels) ==
  [st |-> [s \in 1..Cardinality(DOMAIN d.st) |->
             [edges |-> LET ls == {c \in labels : DAChild(d, s - 1, Code(d, c)) >= 0} IN
                        SortSeq([k \in 1..Cardinality(ls) |->
                                   LET c == SetToSeq(ls)[k] IN <<c, DAChild(d, s - 1, Code(d, c)) + 1>>],
                                LAMBDA a, b : a[1] < b[1]),
              fail |-> d.st[s - 1].fail + 1,
              opos |-> d.st[s - 1].opos]],
   outs |-> outs]
=============================================================================
