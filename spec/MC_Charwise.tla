------------------------------ MODULE MC_Charwise ------------------------------
(***************************************************************************)
(* C08 at the level of the specification: the char-wise automaton (trie    *)
(* over code points, byte lengths accumulated from UTF-8 widths, iterators *)
(* driven through the transcribed end-offset decoder over really encoded   *)
(* 1-4 byte characters, `pos += skips` in the leftmost iterator, unmapped  *)
(* characters short-circuiting to the root) returns exactly what the       *)
(* BYTE-level meaning of module Semantics prescribes for the encoded       *)
(* patterns and the encoded haystack -- hence what the byte-wise automaton *)
(* returns -- and every offset is a character boundary.                    *)
(***************************************************************************)
EXTENDS Naturals, Sequences, FiniteSets, TLC, SequencesExt, FiniteSetsExt, Semantics, Search, Utf8

CONSTANTS PatChars, HayChars, MaxPatLen, MaxPats, MaxHay, Kinds

VARIABLES pats, kind, nfa, phase, hay
vars == <<pats, kind, nfa, phase, hay>>

SeqsUpTo(S, n) == UNION {[1..k -> S] : k \in 0..n}
AllPats == SeqsUpTo(PatChars, MaxPatLen) \ {<<>>}
AllHays == SeqsUpTo(HayChars, MaxHay)

Init == pats = <<>> /\ kind \in Kinds /\ nfa = EmptyNfa /\ phase = "add" /\ hay = <<>>
Add(p) == /\ phase = "add" /\ Len(pats) < MaxPats /\ (\A i \in 1..Len(pats) : pats[i] # p)
          /\ nfa' = AddPattern(nfa, p, Len(pats) + 1, ByteLen(p), kind).nfa
          /\ pats' = Append(pats, p) /\ UNCHANGED <<kind, phase, hay>>
Finish == /\ phase = "add" /\ Len(pats) >= 1 /\ nfa' = Finalize(nfa, kind) /\ phase' = "built"
          /\ UNCHANGED <<pats, kind, hay>>
SearchH(h) == phase = "built" /\ hay' = h /\ phase' = "searched" /\ UNCHANGED <<pats, kind, nfa>>
Next == (\E p \in AllPats : Add(p)) \/ Finish \/ (\E h \in AllHays : SearchH(h))
Spec == Init /\ [][Next]_vars

CharsIn(ps) == UNION {{ps[i][k] : k \in 1..Len(ps[i])} : i \in 1..Len(ps)}
Aut    == nfa @@ [alpha |-> CharsIn(pats)]
BPats  == [i \in 1..Len(pats) |-> EncSeq(pats[i])]
BHay   == EncSeq(hay)
Run(m) == RunAll(Aut, m, DecodeAll(BHay), "C")

Agree ==
  phase = "searched" =>
    /\ DecodeSafe(BHay)                                              \* C07: the decoder stays inside
    /\ [k \in 1..Len(DecodeAll(BHay)) |-> DecodeAll(BHay)[k][2]] = hay \* and decodes what was encoded
    /\ IF kind = "STD" THEN
         /\ Run("ov").ms    = Expected("ov", kind, BPats, BHay)
         /\ Run("find").ms  = Expected("find", kind, BPats, BHay)
         /\ Run("nosuf").ms = Expected("nosuf", kind, BPats, BHay)
       ELSE Run("lm").ms = Expected("lm", kind, BPats, BHay)

Boundaries ==
  phase = "searched" =>
    LET cb == CharBoundaries(BHay)
        ms == IF kind = "STD" THEN Run("ov").ms \o Run("find").ms \o Run("nosuf").ms ELSE Run("lm").ms
    IN \A i \in 1..Len(ms) : ms[i][1] \in cb /\ ms[i][2] \in cb

\* C12 for the char-wise iterators: a whole scalar is pulled per step, `pulled` lands on its end
RECURSIVE LazyFrom(_, _)
LazyFrom(it, syms) ==
  LET r == NextCall(Aut, it, syms, "C") IN
  IF r.m = <<>> THEN Pulled(r.it, syms) = Len(BHay)
  ELSE r.m[2] = Pulled(r.it, syms) /\ LazyFrom(r.it, syms)
Lazy == phase = "searched" /\ kind = "STD" =>
          \A m \in {"ov", "find", "nosuf"} : LazyFrom(NewIter(m), DecodeAll(BHay))
=============================================================================
