CONSTANTS
  Menu <- MenuDef
  Hays <- HaysQuick
  MaxAutos = 2
  MaxIters = 2
  MaxActs = 5
SPECIFICATION Spec
VIEW View
INVARIANT Interleaved Meaning Lazy
CHECK_DEADLOCK FALSE
