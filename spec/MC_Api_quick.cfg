CONSTANTS
  Menu <- MenuDef
  Hays <- HaysDef
  MaxAutos = 2
  MaxIters = 2
  MaxActs = 5
SPECIFICATION Spec
VIEW View
INVARIANT Interleaved Meaning Lazy
CHECK_DEADLOCK FALSE
