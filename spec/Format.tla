-------------------------------- MODULE Format --------------------------------
(***************************************************************************)
(* The serialised image (src/serializer.rs, bytewise.rs:574-648,           *)
(* charwise.rs:610-688, mapper.rs, intpack.rs, lib.rs Output/MatchKind):   *)
(* length-prefixed little-endian arrays, 4 bytes per u32, the byte-wise    *)
(* state packs output_pos and CHECK into one u32 (opos << 8 | check), a    *)
(* value occupies W bytes (little-endian), the match kind is one byte and  *)
(* an unknown kind byte decodes as Standard.                               *)
(*                                                                         *)
(* Design documentation of the current format, checked for internal        *)
(* consistency (Decode inverts Encode and hands back the remainder).  It   *)
(* is deliberately NOT bound byte-for-byte to the code: a symmetric change *)
(* of the format keeps C09 true, so the conformance checks observe the     *)
(* round trip only.                                                        *)
(***************************************************************************)
EXTENDS Naturals, Sequences, FiniteSets

\* an image-level automaton:
\*   [var, st: Seq([base, check, fail, opos]), outs: Seq([v, len, parent]), kind \in 0..2, nstates,
\*    table: Seq(Nat) (char-wise mapper table, INVALID = 4294967295 not used in the model), alpha]
U32(x) == <<x % 256, (x \div 256) % 256, (x \div 65536) % 256, (x \div 16777216) % 256>>
RECURSIVE LE(_, _)
LE(x, w) == IF w = 0 THEN <<>> ELSE <<x % 256>> \o LE(x \div 256, w - 1)

RECURSIVE Cat(_)
Cat(ss) == IF ss = <<>> THEN <<>> ELSE Head(ss) \o Cat(Tail(ss))

EncState(var, s) ==
  IF var = "B" THEN U32(s.base) \o U32(s.fail) \o U32(s.opos * 256 + s.check)
  ELSE U32(s.base) \o U32(s.check) \o U32(s.fail) \o U32(s.opos)
EncOut(o, w) == LE(o.v, w) \o U32(o.len) \o U32(o.parent)
EncVec(xs, enc(_)) == U32(Len(xs)) \o Cat([i \in 1..Len(xs) |-> enc(xs[i])])

Encode(a, w) ==
     EncVec(a.st, LAMBDA s : EncState(a.var, s))
  \o (IF a.var = "C" THEN EncVec(a.table, U32) \o U32(a.alpha) ELSE <<>>)
  \o EncVec(a.outs, LAMBDA o : EncOut(o, w))
  \o <<a.kind>> \o U32(a.nstates)

\* ---- decoding: every reader returns [v, rest] ---------------------------------------------------
RdU32(b) == [v |-> b[1] + 256 * b[2] + 65536 * b[3] + 16777216 * b[4], rest |-> SubSeq(b, 5, Len(b))]
RECURSIVE RdLE(_, _)
RdLE(b, w) == IF w = 0 THEN [v |-> 0, rest |-> b]
              ELSE LET r == RdLE(Tail(b), w - 1) IN [v |-> Head(b) + 256 * r.v, rest |-> r.rest]

RdState(var, b) ==
  IF var = "B" THEN
    LET r1 == RdU32(b) r2 == RdU32(r1.rest) r3 == RdU32(r2.rest) IN
    [v |-> [base |-> r1.v, check |-> r3.v % 256, fail |-> r2.v, opos |-> r3.v \div 256], rest |-> r3.rest]
  ELSE
    LET r1 == RdU32(b) r2 == RdU32(r1.rest) r3 == RdU32(r2.rest) r4 == RdU32(r3.rest) IN
    [v |-> [base |-> r1.v, check |-> r2.v, fail |-> r3.v, opos |-> r4.v], rest |-> r4.rest]
RdOut(b, w) ==
  LET r1 == RdLE(b, w) r2 == RdU32(r1.rest) r3 == RdU32(r2.rest) IN
  [v |-> [v |-> r1.v, len |-> r2.v, parent |-> r3.v], rest |-> r3.rest]

RECURSIVE RdN(_, _, _, _)
RdN(b, n, rd(_), acc) == IF n = 0 THEN [v |-> acc, rest |-> b]
                         ELSE LET r == rd(b) IN RdN(r.rest, n - 1, rd, Append(acc, r.v))
RdVec(b, rd(_)) == LET l == RdU32(b) IN RdN(l.rest, l.v, rd, <<>>)

\* MatchKind::from(u8): 1 => LeftmostLongest, 2 => LeftmostFirst, anything else => Standard
KindOf(byte) == IF byte \in {1, 2} THEN byte ELSE 0

Decode(var, b, w) ==
  LET rs == RdVec(b, LAMBDA x : RdState(var, x))
      rt == IF var = "C" THEN RdVec(rs.rest, RdU32) ELSE [v |-> <<>>, rest |-> rs.rest]
      ra == IF var = "C" THEN RdU32(rt.rest) ELSE [v |-> 0, rest |-> rt.rest]
      ro == RdVec(ra.rest, LAMBDA x : RdOut(x, w))
      kb == ro.rest[1]
      rn == RdU32(SubSeq(ro.rest, 2, Len(ro.rest)))
  IN [a |-> [var |-> var, st |-> rs.v, table |-> rt.v, alpha |-> ra.v, outs |-> ro.v,
             kind |-> KindOf(kb), nstates |-> rn.v],
      rest |-> rn.rest]
=============================================================================
