--------------------------------- MODULE Nfa ---------------------------------
(***************************************************************************)
(* src/nfa_builder.rs, implementation-shaped.                              *)
(*                                                                         *)
(* Nodes are numbered in insertion order as in the code, shifted by one    *)
(* because TLA+ sequences are 1-based: ROOT = 1 (code: 0), DEAD = 2        *)
(* (code: 1).  Edges are kept sorted by label (the BTreeMap).  `fail`      *)
(* defaults to ROOT.  `out` is the 1-based index of the pattern ending at  *)
(* the node (0: none), `plen` its length in bytes, `opos` the 1-based      *)
(* position in `outs` (0: none), as `output_pos`.                          *)
(* A label is a natural: a byte, or a code point for the char-wise         *)
(* automaton; the caller supplies the pattern's byte length.               *)
(***************************************************************************)
EXTENDS Naturals, Sequences, FiniteSets, SequencesExt, FiniteSetsExt

ROOT == 1
DEAD == 2

\* x1 = F(x, lo), x2 = F(x1, lo + 1), ... F(.., hi): a sequential loop evaluated by divide and
\* conquer, so that TLC's recursion depth is logarithmic in the number of iterations (deep
\* recursion makes TLC quadratic: the garbage collector rescans the ever deeper stack)
RECURSIVE IterRange(_, _, _, _)
IterRange(F(_, _), x, lo, hi) ==
  IF lo > hi THEN x
  ELSE IF lo = hi THEN F(x, lo)
  ELSE LET mid == (lo + hi) \div 2 IN IterRange(F, IterRange(F, x, lo, mid), mid + 1, hi)

NewNode == [edges |-> <<>>, fail |-> ROOT, out |-> 0, plen |-> 0, opos |-> 0]
\* `shadow`: patterns skipped by the leftmost-first shortcut (kept for duplicate detection)
EmptyNfa == [st |-> <<NewNode, NewNode>>, outs |-> <<>>, len |-> 0, shadow |-> {}]

Child(nfa, s, c) ==
  LET es  == nfa.st[s].edges
      hit == {i \in 1..Len(es) : es[i][1] = c}
  IN IF hit = {} THEN 0 ELSE es[CHOOSE i \in hit : TRUE][2]

InsertSorted(es, c, n) ==
  LET lt == SelectSeq(es, LAMBDA e : e[1] < c)
      gt == SelectSeq(es, LAMBDA e : e[1] > c)
  IN lt \o <<<<c, n>>>> \o gt

\* ---- NfaBuilder::add (nfa_builder.rs:80-121 + check_shadowed_duplicate) ----
\* read-only walk used on the leftmost-first shortcut path
RECURSIVE WalkExisting(_, _, _, _)
WalkExisting(nfa, p, k, s) ==
  IF k > Len(p) THEN s
  ELSE LET ch == Child(nfa, s, p[k]) IN
       IF ch = 0 THEN 0 ELSE WalkExisting(nfa, p, k + 1, ch)

ShadowPath(nfa, p) ==
  LET t == WalkExisting(nfa, p, 1, ROOT)
      registered == t # 0 /\ nfa.st[t].out # 0
  IN IF registered \/ p \in nfa.shadow
     THEN [nfa |-> nfa, res |-> "dup"]
     ELSE [nfa |-> [nfa EXCEPT !.shadow = @ \cup {p}], res |-> "shadow"]

\* result: [nfa, res], res \in {"ok", "shadow", "dup", "empty"}
RECURSIVE AddWalk(_, _, _, _, _, _, _)
AddWalk(nfa, p, k, s, idx, plen, kind) ==
  IF k > Len(p) THEN
     IF nfa.st[s].out # 0 THEN [nfa |-> nfa, res |-> "dup"]
     ELSE [nfa |-> [nfa EXCEPT !.st[s].out = idx, !.st[s].plen = plen, !.len = @ + 1],
           res |-> "ok"]
  ELSE IF kind = "LF" /\ nfa.st[s].out # 0 THEN ShadowPath(nfa, p)
  ELSE LET ch == Child(nfa, s, p[k]) IN
       IF ch # 0 THEN AddWalk(nfa, p, k + 1, ch, idx, plen, kind)
       ELSE LET n    == Len(nfa.st) + 1
                nfa2 == [nfa EXCEPT !.st =
                           Append([@ EXCEPT ![s].edges = InsertSorted(@, p[k], n)], NewNode)]
            IN AddWalk(nfa2, p, k + 1, n, idx, plen, kind)

AddPattern(nfa, p, idx, plen, kind) ==
  IF plen = 0 THEN [nfa |-> nfa, res |-> "empty"]
  ELSE AddWalk(nfa, p, 1, ROOT, idx, plen, kind)

\* ---- build_fails (nfa_builder.rs:123-156): inner loop ---------------------
RECURSIVE FailLoop(_, _, _)
FailLoop(nfa, f, c) ==
  LET ch == Child(nfa, f, c) IN
  IF ch # 0 THEN ch
  ELSE LET nf == nfa.st[f].fail IN
       IF f = ROOT /\ nf = ROOT THEN ROOT ELSE FailLoop(nfa, nf, c)

\* ---- build_fails_leftmost (nfa_builder.rs:158-207): inner loop -------------
RECURSIVE FailLoopLm(_, _, _)
FailLoopLm(nfa, f, c) ==
  LET ch == Child(nfa, f, c) IN
  IF ch # 0 THEN ch
  ELSE LET nf == nfa.st[f].fail IN
       IF nf = DEAD THEN DEAD
       ELSE IF f = ROOT /\ nf = ROOT THEN ROOT ELSE FailLoopLm(nfa, nf, c)

RECURSIVE SetChildFails(_, _, _, _)
SetChildFails(nfa, s, k, lm) ==
  IF k > Len(nfa.st[s].edges) THEN nfa
  ELSE LET e  == nfa.st[s].edges[k]
           f  == nfa.st[s].fail
           nf == IF lm THEN (IF f = DEAD THEN DEAD ELSE FailLoopLm(nfa, f, e[1]))
                 ELSE FailLoop(nfa, f, e[1])
       IN SetChildFails([nfa EXCEPT !.st[e[2]].fail = nf], s, k + 1, lm)

\* one element of the BFS queue (FailStep / FailStepLeftmost)
FailStep(nfa, s, lm) ==
  LET nfa1 == IF lm /\ nfa.st[s].out # 0 THEN [nfa EXCEPT !.st[s].fail = DEAD] ELSE nfa
  IN SetChildFails(nfa1, s, 1, lm)

KidsOf(nfa, s) == [i \in 1..Len(nfa.st[s].edges) |-> nfa.st[s].edges[i][2]]

\* the BFS queue loop: element qi of the queue exists by the time it is processed
BfsStep(b, qi, lm) == [nfa |-> FailStep(b.nfa, b.q[qi], lm), q |-> b.q \o KidsOf(b.nfa, b.q[qi])]
\* every node except ROOT and DEAD enters the queue exactly once
Bfs(nfa, q, qi, lm) ==
  IterRange(LAMBDA b, k : BfsStep(b, k, lm), [nfa |-> nfa, q |-> q], qi, Len(nfa.st) - 2)

\* ---- build_outputs (nfa_builder.rs:209-225): one queue element -------------
OutputStep(nfa, s) ==
  IF nfa.st[s].out # 0 THEN
     LET o == [v |-> nfa.st[s].out, len |-> nfa.st[s].plen,
               parent |-> nfa.st[nfa.st[s].fail].opos]
     IN [nfa EXCEPT !.outs = Append(@, o), !.st[s].opos = Len(nfa.outs) + 1]
  ELSE [nfa EXCEPT !.st[s].opos = nfa.st[nfa.st[s].fail].opos]

Outs(nfa, q, k) == IterRange(LAMBDA n, i : OutputStep(n, q[i]), nfa, k, Len(q))

Finalize(nfa, kind) ==
  LET r == Bfs(nfa, KidsOf(nfa, ROOT), 1, kind # "STD")
  IN Outs(r.nfa, r.q, 1)

\* ---- whole construction: build_sparse_nfa ---------------------------------
\* lens[i] = byte length of ps[i].  Result [nfa, res]: res \in {"ok","dup","empty","noinput"}
\* the loop over the input stops at the first entry that is rejected
AddAll(nfa, ps, lens, k, kind) ==
  IterRange(LAMBDA r, i : IF r.res \in {"dup", "empty"} THEN r
                          ELSE LET a == AddPattern(r.nfa, ps[i], i, lens[i], kind) IN
                               \* a pattern skipped by the leftmost-first shortcut is not an error
                               [nfa |-> a.nfa, res |-> IF a.res \in {"dup", "empty"} THEN a.res ELSE "ok"],
            [nfa |-> nfa, res |-> "ok"], k, Len(ps))

BuildNfa(ps, lens, kind) ==
  LET r == AddAll(EmptyNfa, ps, lens, 1, kind) IN
  IF r.res # "ok" THEN r
  ELSE IF r.nfa.len = 0 THEN [nfa |-> r.nfa, res |-> "noinput"]
  ELSE [nfa |-> Finalize(r.nfa, kind), res |-> "ok"]

OutcomeOf(res) == CASE res = "ok" -> "ok"
                    [] res = "dup" -> "DuplicatePattern"
                    [] res \in {"empty", "noinput"} -> "InvalidArgument"

\* ---- derived views ----------------------------------------------------------
\* string of every node, by BFS from the root (never stored by the code)
RECURSIVE Strs(_, _, _)
Strs(n, todo, acc) ==
  IF todo = <<>> THEN acc
  ELSE LET x    == Head(todo)
           es   == n.st[x[1]].edges
           kids == [i \in 1..Len(es) |-> <<es[i][2], Append(x[2], es[i][1])>>]
       IN Strs(n, Tail(todo) \o kids, acc @@ (x[1] :> x[2]))
StrOf(n) == Strs(n, <<<<ROOT, <<>>>>>>, <<>>)

Nodes(n) == (1..Len(n.st)) \ {DEAD}

\* output chain of an output position: sequence of <<len, v>>
RECURSIVE ChainOf(_, _)
ChainOf(outs, op) ==
  IF op = 0 THEN <<>> ELSE <<<<outs[op].len, outs[op].v>>>> \o ChainOf(outs, outs[op].parent)
=============================================================================
