------------------------------- MODULE MC_Search -------------------------------
(***************************************************************************)
(* Model-checking harness for layers L1 (trie, fail links, outputs) and L3 *)
(* (search): every ordered pattern sequence over Alpha (including empty    *)
(* and repeated entries), every match kind, every haystack up to MaxHay.   *)
(* The invariants are the properties, stated through module Semantics.     *)
(***************************************************************************)
EXTENDS Naturals, Sequences, FiniteSets, TLC, SequencesExt, FiniteSetsExt,
        Semantics, Search, Utf8

CONSTANTS Alpha, MaxPatLen, MaxPats, MaxHay, Kinds

VARIABLES pats, kind, nfa, phase, hay, outcome
vars == <<pats, kind, nfa, phase, hay, outcome>>

SeqsUpTo(S, n) == UNION {[1..k -> S] : k \in 0..n}
AllPats == SeqsUpTo(Alpha, MaxPatLen)          \* includes the empty pattern
AllHays == SeqsUpTo(Alpha, MaxHay)

Init == /\ pats = <<>> /\ kind \in Kinds /\ nfa = EmptyNfa /\ phase = "add"
        /\ hay = <<>> /\ outcome = "none"

\* NfaBuilder::add for the next input entry
Add(p) ==
  /\ phase = "add" /\ Len(pats) < MaxPats
  /\ LET r == AddPattern(nfa, p, Len(pats) + 1, Len(p), kind) IN
     /\ nfa' = r.nfa
     /\ IF r.res \in {"dup", "empty"}
        THEN phase' = "error" /\ outcome' = OutcomeOf(r.res)
        ELSE phase' = "add" /\ UNCHANGED outcome
  /\ pats' = Append(pats, p)
  /\ UNCHANGED <<kind, hay>>

\* end of input: len check, fail links, outputs
Finish ==
  /\ phase = "add"
  /\ IF nfa.len = 0
     THEN phase' = "error" /\ outcome' = "InvalidArgument" /\ UNCHANGED nfa
     ELSE phase' = "built" /\ outcome' = "ok" /\ nfa' = Finalize(nfa, kind)
  /\ UNCHANGED <<pats, kind, hay>>

Search(h) == /\ phase = "built" /\ hay' = h /\ phase' = "searched"
             /\ UNCHANGED <<pats, kind, nfa, outcome>>

Next == \/ \E p \in AllPats : Add(p)
        \/ Finish
        \/ \E h \in AllHays : Search(h)

Spec == Init /\ [][Next]_vars

\* ---------------------------------------------------------------------------
Run(method) == RunAll(nfa, method, ByteSyms(hay), "B")

\* P-ov, P-std, P-ns, P-ll, P-lf  (C01-C05, values C06)
Correct ==
  phase = "searched" =>
    IF kind = "STD" THEN
      /\ Run("ov").ms    = Expected("ov", kind, pats, hay)
      /\ Run("find").ms  = Expected("find", kind, pats, hay)
      /\ Run("nosuf").ms = Expected("nosuf", kind, pats, hay)
    ELSE Run("lm").ms = Expected("lm", kind, pats, hay)

\* the char-wise bookkeeping (pos += skips) gives the same answers
CorrectC ==
  phase = "searched" /\ kind # "STD" =>
     RunAll(nfa, "lm", ByteSyms(hay), "C").ms = Expected("lm", kind, pats, hay)

\* T-err (C10): the outcome is the documented one
TErr ==
  phase \in {"error", "built", "searched"} =>
     OutcomeAllowed(outcome, pats, "with_values", 0)

\* T-trie (C15)
TTrie ==
  phase \in {"built", "searched"} =>
    LET so == StrOf(nfa) IN
    /\ DOMAIN so = Nodes(nfa)
    /\ {so[x] : x \in Nodes(nfa)} = PrefixesOf(pats, kind) \cup {<<>>}
    /\ Cardinality(Nodes(nfa)) = NumStates(pats, kind)
    /\ \A x, y \in Nodes(nfa) : so[x] = so[y] => x = y

\* T-fail for standard semantics (C01, C13): longest proper suffix that is a node
TFailStd ==
  phase \in {"built", "searched"} /\ kind = "STD" =>
    LET so == StrOf(nfa) IN
    \A x \in Nodes(nfa) \ {ROOT} :
      LET f == nfa.st[x].fail IN
      /\ f \in Nodes(nfa)
      /\ IsProperSuffixOf(so[f], so[x])
      /\ \A y \in Nodes(nfa) : IsProperSuffixOf(so[y], so[x]) => Len(so[y]) <= Len(so[f])

\* T-fail-lm (C03, C04, C13)
TFailLm ==
  phase \in {"built", "searched"} /\ kind # "STD" =>
    LET so == StrOf(nfa)
        below(x) == \E i \in Reportable(pats, kind) :
                       Len(pats[i]) <= Len(so[x]) /\ SubSeq(so[x], 1, Len(pats[i])) = pats[i]
    IN \A x \in Nodes(nfa) \ {ROOT} :
      LET f == nfa.st[x].fail IN
      /\ f # DEAD => f \in Nodes(nfa) /\ IsProperSuffixOf(so[f], so[x])
      /\ below(x) => f = DEAD

\* T-out for standard semantics (C01, C05, C13)
TOutStd ==
  phase \in {"built", "searched"} /\ kind = "STD" =>
    LET so == StrOf(nfa) IN
    /\ \A x \in Nodes(nfa) :
         ChainOf(nfa.outs, nfa.st[x].opos) =
           SetToSortSeq({<<Len(pats[i]), i>> : i \in {j \in 1..Len(pats) : IsSuffixOf(pats[j], so[x])}},
                        LAMBDA a, b : a[1] > b[1])
    /\ \A k \in 1..Len(nfa.outs) : nfa.outs[k].parent < k

\* ranking for every kind (C13): output parents strictly decrease
TOutRank ==
  phase \in {"built", "searched"} =>
    \A k \in 1..Len(nfa.outs) : nfa.outs[k].parent < k

\* P-hops (C13): for the standard scans, probes <= 2n and hops <= n
PHops ==
  phase = "searched" /\ kind = "STD" =>
    \A method \in {"ov", "find", "nosuf"} :
      LET it == Run(method).it IN
      /\ it.k = Len(hay)
      /\ it.probes <= 2 * Len(hay)
      /\ it.hops <= Len(hay)

\* P-lazy (C12): at every return with a match ending at e exactly e bytes were pulled
RECURSIVE LazyFrom(_, _)
LazyFrom(it, syms) ==
  LET r == NextCall(nfa, it, syms, "B") IN
  IF r.m = <<>> THEN Pulled(r.it, syms) = Len(syms)
  ELSE r.m[2] = Pulled(r.it, syms) /\ LazyFrom(r.it, syms)
PLazy ==
  phase = "searched" /\ kind = "STD" =>
    \A method \in {"ov", "find", "nosuf"} : LazyFrom(NewIter(method), ByteSyms(hay))
=============================================================================
