-------------------------------- MODULE MC_Api --------------------------------
EXTENDS Daachorse
MenuDef == <<
  [pats |-> <<<<0>>, <<0, 1>>, <<1, 0>>>>, kind |-> "STD"],
  [pats |-> <<<<0, 0>>, <<0>>, <<1, 0, 0>>>>, kind |-> "STD"],
  [pats |-> <<<<0, 1>>, <<0, 1, 0, 1>>, <<1>>>>, kind |-> "LL"],
  [pats |-> <<<<0, 1>>, <<0>>, <<0, 1, 1>>, <<1, 1>>>>, kind |-> "LF"],
  [pats |-> <<<<1, 0, 1>>, <<0, 1>>, <<1>>>>, kind |-> "STD"] >>
HaysQuick == {<<0, 1, 0, 1>>, <<1, 1, 0, 1, 1, 0>>, <<>>}
HaysDef == {<<0, 1, 0, 1>>, <<0, 0, 1, 0, 0>>, <<1, 1, 0, 1, 1, 0>>, <<>>, <<1, 0, 1, 0, 1>>}

\* Random walks (Replay_Api.cfg): TLC's simulator picks uniformly among the successor states, so the action
\* families with many parameter values (CloneFrom over pairs, Drain over modes) would crowd out next() calls.
\* SimNext is Next with those parameters thinned out (the mode follows the step number, clone_from is enabled
\* on every fourth step only); every behaviour of SimSpec is a behaviour of Spec.
ModeAt(n) == <<"fold", "for_each", "count", "last">>[(n % 4) + 1]
SimNext == \/ \E k \in 1..Len(Menu) : Build(k)
           \/ \E h \in 1..Len(autos) : RoundTrip(h)
           \/ \E h \in 1..Len(autos) : nact % 4 = 1 /\ Clone(h)
           \/ \E d, s \in 1..Len(autos) : nact % 4 = 3 /\ s = (d % Len(autos)) + 1 /\ CloneFrom(d, s)
           \/ \E h \in 1..Len(autos), m \in {"ov", "find", "nosuf", "lm"}, e \in {"slice", "iter", "stream"},
                 hay \in Hays : NewIterator(h, m, e, hay)
           \/ \E i \in 1..Len(iters) : NextOn(i)
           \/ \E i \in 1..Len(iters) : NextOn(i)
           \/ \E i \in 1..Len(iters) : nact % 3 = 2 /\ Drain(i, ModeAt(nact + i))
           \/ \E i \in 1..Len(iters) : \E n \in 1..Len(iters[i].hay) : Arrive(i, n)
SimSpec == Init /\ [][SimNext]_vars
=============================================================================
