-------------------------------- MODULE Trace --------------------------------
(***************************************************************************)
(* code -> spec: validates an ndjson trace recorded from the real crate    *)
(* (harness/src/trace.rs) against the specification.                       *)
(*                                                                         *)
(* One event per public call, with arguments and results.  For every event *)
(* the guard compares each logged result with what the specification       *)
(* allows: the operational model (Nfa + Search, the automaton the spec     *)
(* builds from the logged patterns) and the declarative meaning            *)
(* (Semantics).  Each conjunct of a guard is tagged with the properties it *)
(* serves; only the conjuncts tagged with PROP are evaluated, so a check   *)
(* reports its own property only.                                          *)
(*                                                                         *)
(* The search is a single deterministic path.  When an event is not        *)
(* accepted, the names of the failed conjuncts are appended to `bad` and   *)
(* the rest of the scenario is skipped (resynchronisation at the next      *)
(* `reset`), so one rejection does not leave the rest unexamined.          *)
(***************************************************************************)
EXTENDS Naturals, Integers, Sequences, FiniteSets, TLC, Json, IOUtils,
        SequencesExt, FiniteSetsExt, Semantics, Search, Utf8

Rec  == ndJsonDeserialize(IOEnv.TRACE)
PROP == IOEnv.VERIF_PROP

VARIABLES l, st, skip, bad, sc
vars == <<l, st, skip, bad, sc>>

On(S) == PROP \in S
\* a named conjunct: contributes its name when it is active and false
Chk(name, S, cond) == IF On(S) /\ ~cond THEN {name} ELSE {}

SEARCHPROPS == {"C01", "C02", "C03", "C04", "C05"}
ALLP == {"C01", "C02", "C03", "C04", "C05", "C06", "C07", "C08", "C09", "C10",
         "C11", "C12", "C13", "C14", "C15"}

EmptyState == [autos |-> <<>>, iters |-> <<>>, seen |-> <<>>]

\* ---------------------------------------------------------------------------
\* build
\* ---------------------------------------------------------------------------
LensOf(var, ps) == [i \in 1..Len(ps) |-> IF var = "B" THEN Len(ps[i]) ELSE ByteLen(ps[i])]
BytesOf(var, ps) == [i \in 1..Len(ps) |-> IF var = "B" THEN ps[i] ELSE EncSeq(ps[i])]
CharsIn(ps) == UNION {{ps[i][k] : k \in 1..Len(ps[i])} : i \in 1..Len(ps)}

\* Collections beyond this size (the "bigindex" family: values = positions beyond u8/u16 range) are
\* validated only by the conjuncts that do not need the operational model of the automaton.
BIG == 3000
TotalLen(ps, k) == IterRange(LAMBDA t, i : t + Len(ps[i]), 0, k, Len(ps))
IsBig(ps) == Len(ps) > BIG \/ (Len(ps) <= 50 /\ TotalLen(ps, 1) > 4 * BIG)
SpecBuild(ev) == IF IsBig(ev.pats) THEN [nfa |-> EmptyNfa, res |-> "ok"]
                 ELSE BuildNfa(ev.pats, LensOf(ev.var, ev.pats), ev.kind)

BuildFails(ev, r) ==
  LET convErr == ev.entry = "new" /\ Len(ev.pats) >= 1 /\ Len(ev.pats) - 1 > ev.maxidx
      ns      == NumStates(ev.pats, ev.kind)
  IN
     Chk("build.no_panic", {"C10", "C07"}, ev.outcome \in {"ok", "InvalidArgument", "DuplicatePattern", "InvalidConversion"})
  \cup Chk("build.outcome_documented", {"C10"},
           OutcomeAllowed(ev.outcome, ev.pats, ev.entry, ev.maxidx))
  \* the operational model of the builder predicts the same outcome
  \cup Chk("build.outcome_model", {"C10"},
           convErr \/ (ev.outcome = "ok") = (r.res = "ok"))
  \* every other property presupposes that valid input builds
  \cup Chk("build.valid_input_builds", ALLP \ {"C10"},
           ValidCollection(ev.pats, ev.entry, ev.maxidx) => ev.outcome = "ok")
  \cup (IF ev.outcome # "ok" \/ r.res # "ok" \/ IsBig(ev.pats) THEN {} ELSE
          Chk("build.num_states", {"C15", "C11"},
              ev.num_states = ns /\ ns = Cardinality(Nodes(r.nfa)))
     \cup Chk("build.num_elements", {"C15"},
              ev.num_elements = -1 \/ ev.num_elements >= ev.num_states)
     \cup Chk("build.heap_bytes", {"C15"}, ev.heap_bytes >= 12 * ev.num_states))

AutoOf(ev, r) ==
  [var |-> ev.var, kind |-> ev.kind, entry |-> ev.entry, nfb |-> ev.nfb, vt |-> ev.vt,
   pats |-> ev.pats, bpats |-> BytesOf(ev.var, ev.pats), vals |-> ev.vals,
   aut |-> IF ev.var = "C" THEN r.nfa @@ [alpha |-> CharsIn(ev.pats)] ELSE r.nfa,
   restored |-> FALSE]

ValStr(a, i) == IF a.vt = "Empty" THEN "Empty"
                ELSE IF a.entry = "new" THEN ToString(i - 1) ELSE a.vals[i]

\* ---------------------------------------------------------------------------
\* search (a complete run of one iterator)
\* ---------------------------------------------------------------------------
SymsOf(a, hay) == IF a.var = "B" THEN ByteSyms(hay) ELSE DecodeAll(hay)
WithVals(a, ms) == [i \in 1..Len(ms) |-> <<ms[i][1], ms[i][2], ValStr(a, ms[i][3])>>]
Got(res) == [i \in 1..Len(res) |-> <<res[i].s, res[i].e, res[i].v>>]

MethodProp(method, kind) ==
  CASE method = "ov" -> "C01" [] method = "find" -> "C02" [] method = "nosuf" -> "C05"
    [] method = "lm" -> IF kind = "LL" THEN "C03" ELSE "C04"

\* Absolute comparisons (against the model and the declarative meaning) decide the property of
\* the search method.  The relational properties (C08 char-wise = byte-wise, C09 restored =
\* original, C11 other num_free_blocks = default, C12 iterator entry = slice entry, C14 repeated
\* or concurrent = first) are decided by comparing with the reference run recorded earlier in
\* the same scenario, so that a defect which makes both sides wrong alike is not reported as a
\* violation of a property that still holds.
ResultProps(a, method) == {MethodProp(method, a.kind)}
RELP == {"C08", "C09", "C11", "C12", "C14"}

ValStrs(a) == [i \in 1..Len(a.pats) |-> ValStr(a, i)]
RefKey(a, method, hay) == <<a.kind, a.bpats, ValStrs(a), method, hay>>

MethodOK(a, method) == IF a.kind = "STD" THEN method \in {"ov", "find", "nosuf"} ELSE method = "lm"

\* the declarative oracle is quadratic: use it where it is affordable; the MC configs
\* establish that the operational model agrees with it
OracleAffordable(a, hay) == Len(hay) * Len(a.pats) <= 60000

SearchFails(s, a, ev) ==
  LET hay  == ev.hay
      syms == SymsOf(a, hay)
      got  == Got(ev.res)
      rp   == ResultProps(a, ev.method)
      run  == RunAll(a.aut, ev.method, syms, a.var)
      n    == Len(hay)
      key  == RefKey(a, ev.method, hay)
  IN
  IF ~MethodOK(a, ev.method) THEN {"search.method_kind_mismatch"} ELSE
     Chk("search.terminates", rp \cup {"C13", "C07"}, ~ev.capped)
  \cup Chk("search.equals_model", rp, ~IsBig(a.pats) => got = WithVals(a, run.ms))
  \cup Chk("search.equals_meaning", rp,
           OracleAffordable(a, hay) =>
              got = WithVals(a, Expected(ev.method, a.kind, a.bpats, hay)))
  \cup Chk("search.same_as_reference", RELP, key \in DOMAIN s.seen => got = s.seen[key])
  \cup Chk("search.true_occurrence_and_value", {"C06"},
           \A i \in 1..Len(got) :
              /\ 0 <= got[i][1] /\ got[i][1] < got[i][2] /\ got[i][2] <= n
              /\ \E j \in 1..Len(a.bpats) :
                    /\ a.bpats[j] = SubSeq(hay, got[i][1] + 1, got[i][2])
                    /\ ValStr(a, j) = got[i][3])
  \cup Chk("search.char_boundaries", {"C08"},
           a.var = "C" => LET cb == CharBoundaries(hay) IN
              \A i \in 1..Len(got) : got[i][1] \in cb /\ got[i][2] \in cb)
  \cup Chk("search.lazy", {"C12"},
           ev.entry = "iter" =>
              /\ \A i \in 1..Len(ev.res) : ev.res[i].pulled = ev.res[i].e
              /\ ev.pulled = n)
  \cup Chk("search.linear", {"C13"},
           a.kind = "STD" =>
              /\ \A i \in 1..Len(ev.res) : ev.res[i].probes <= 2 * ev.res[i].e
              /\ ev.probes <= 2 * n /\ ev.hops <= n)

\* the first `first` results taken with next(), the rest consumed by fold / count / last of the
\* Iterator trait: together they are the same sequence
ConsumeOK(exp, ev) ==
  LET got == Got(ev.res)
      j   == IF ev.first <= Len(exp) THEN ev.first ELSE Len(exp)
  IN CASE ev.mode = "fold"  -> got = exp
       [] ev.mode = "count" -> got = SubSeq(exp, 1, j) /\ ev.rest_n = Len(exp) - j
       [] OTHER             -> /\ got = SubSeq(exp, 1, j) /\ ev.rest_n = Len(exp) - j
                               /\ Got(ev.last) = (IF Len(exp) > j THEN <<exp[Len(exp)]>> ELSE <<>>)

ConsumeFails(s, a, ev) ==
  IF ~MethodOK(a, ev.method) THEN {"search.method_kind_mismatch"} ELSE
  \* relational properties: internal iteration (fold / count / for_each) yields what the reference
  \* search of this scenario (same patterns, same haystack; C08: the byte-wise twin) yielded
  LET key == RefKey(a, ev.method, ev.hay) IN
  Chk("consume.same_as_reference", RELP, key \in DOMAIN s.seen => ConsumeOK(s.seen[key], ev)) \cup
  LET exp  == WithVals(a, RunAll(a.aut, ev.method, SymsOf(a, ev.hay), a.var).ms)
      rp   == {MethodProp(ev.method, a.kind)}
  IN IF IsBig(a.pats) THEN {} ELSE
     Chk("consume.equals_model", rp, ConsumeOK(exp, ev))

\* ---------------------------------------------------------------------------
\* table: the complete transition table of a real automaton
\* ---------------------------------------------------------------------------
\* node of the specification's automaton for every dumped slot (BFS order: parents come first)
MapSlots(nfa, slots, i, acc0) ==
  IterRange(LAMBDA acc, k :
              LET p  == slots[k].par
                  nd == IF k = 1 THEN ROOT
                        ELSE IF p < 1 \/ p >= k \/ acc[p] = 0 THEN 0
                        ELSE Child(nfa, acc[p], slots[k].lab)
              IN Append(acc, nd),
            acc0, i, Len(slots))

DepthsOf(slots, i, acc0) ==
  IterRange(LAMBDA acc, k :
              LET p == slots[k].par IN
              Append(acc, IF k = 1 \/ p < 1 \/ p >= k THEN 0 ELSE acc[p] + 1),
            acc0, i, Len(slots))

\* label string of every dumped slot along the BFS tree
PathsOf(slots) ==
  IterRange(LAMBDA acc, k :
              LET p == slots[k].par IN
              Append(acc, IF k = 1 \/ p < 1 \/ p >= k THEN <<>> ELSE Append(acc[p], slots[k].lab)),
            <<>>, 1, Len(slots))

RECURSIVE Pow2AtLeast(_, _)
Pow2AtLeast(n, p) == IF p >= n THEN p ELSE Pow2AtLeast(n, 2 * p)

RealChain(a, outs, op) ==
  LET c == ChainOf(outs, op) IN [i \in 1..Len(c) |-> <<c[i][1], c[i][2]>>]
SpecChain(a, op) ==
  LET c == ChainOf(a.aut.outs, op) IN [i \in 1..Len(c) |-> <<c[i][1], ValStr(a, c[i][2])>>]
HeadOf(c) == IF c = <<>> THEN <<>> ELSE <<c[1]>>

\* the automaton a table encodes, independent of the slot layout: BFS order by label is canonical
NormTable(ev) ==
  <<[k \in 1..Len(ev.extra) |-> <<ev.extra[k].from, ev.extra[k].lab>>]>> \o
  [i \in 1..Len(ev.slots) |->
     <<ev.slots[i].par, ev.slots[i].lab, ev.slots[i].failidx,
       IF \A k \in 1..Len(ev.outs) : ev.outs[k].parent >= 0 /\ ev.outs[k].parent < k
          /\ ev.slots[i].opos >= 0 /\ ev.slots[i].opos <= Len(ev.outs)
       THEN ChainOf(ev.outs, ev.slots[i].opos) ELSE <<"bad chain">>>>]
TableKey(a) == <<"table", a.var, a.kind, a.bpats, [i \in 1..Len(a.pats) |-> ValStr(a, i)]>>

\* ---- behavioural equivalence of a dumped table with the specification's automaton ----------
\* The automaton the table encodes, in the shape module Search works on: ROOT = 1, the reserved
\* dead slot = 2, the i-th dumped slot (i >= 2) = i + 1.  Phantom edges (`extra`) are part of it.
RId(i) == IF i = 1 THEN 1 ELSE i + 1
RealAut(a, ev) ==
  LET n == Len(ev.slots)
      kids0 == [i \in 1..(n + 1) |-> <<>>]
      kids1 == IterRange(LAMBDA k, j : [k EXCEPT ![RId(ev.slots[j].par)] = Append(@, <<ev.slots[j].lab, RId(j)>>)],
                         kids0, 2, n)
      kids2 == IterRange(LAMBDA k, j :
                           LET x == ev.extra[j] IN
                           [k EXCEPT ![RId(x.from)] = Append(@, <<x.lab, IF x.toidx = -1 THEN 2 ELSE RId(x.toidx)>>)],
                         kids1, 1, Len(ev.extra))
      FailId(f) == IF f = 0 THEN 2 ELSE RId(f)
      base == [st |-> [x \in 1..(n + 1) |->
                         IF x = 2 THEN [edges |-> <<>>, fail |-> IF ev.dead.fail = 0 THEN 1 ELSE 2, opos |-> ev.dead.opos]
                         ELSE LET i == IF x = 1 THEN 1 ELSE x - 1 IN
                              [edges |-> kids2[x], fail |-> FailId(ev.slots[i].failidx), opos |-> ev.slots[i].opos]],
               outs |-> [k \in 1..Len(ev.outs) |-> [v |-> ev.outs[k].v, len |-> ev.outs[k].len, parent |-> ev.outs[k].parent]]]
  IN IF a.var = "C" THEN base @@ [alpha |-> {ev.mapper[m][1] : m \in 1..Len(ev.mapper)}] ELSE base

\* what an iterator can observe of a state: the whole output chain (standard kinds: the overlapping
\* iterator walks it), or whether it is the root and the head of the chain (leftmost kinds)
ObsChain(outs, op, val(_)) ==
  LET c == ChainOf(outs, op) IN [i \in 1..Len(c) |-> <<c[i][1], val(c[i][2])>>]
Obs(aut, s, lm, val(_)) ==
  IF lm THEN <<s = ROOT, HeadOf(ObsChain(aut.outs, aut.st[s].opos, val))>>
  ELSE <<ObsChain(aut.outs, aut.st[s].opos, val)>>

\* Bisimulation from <<ROOT, ROOT>>: round by round (recursion depth = depth of the automaton)
RECURSIVE BisimRounds(_, _, _, _, _, _, _)
BisimRounds(ra, sa, a, lm, L, frontier, seen) ==
  IF frontier = {} THEN TRUE
  ELSE LET succ == {<<NextStateR(ra, p[1], c, lm).t, NextStateR(sa, p[2], c, lm).t>> : p \in frontier, c \in L}
           same == \A q \in succ :
                     Obs(ra, q[1], lm, LAMBDA v : v) = Obs(sa, q[2], lm, LAMBDA i : ValStr(a, i))
       IN same /\ BisimRounds(ra, sa, a, lm, L, succ \ seen, seen \cup succ)

\* Fast path of TableEquiv: the dumped table is the specification's automaton slot by slot (same trie, same
\* fail links, same output chains, the dead slot as both variants lay it out, same mapped characters).  Then the
\* two are the same structure and nothing remains to be compared; a table that differs in any of these (a valid
\* optimisation of the fail links, say) is decided by the bisimulation below.
ExactMatch(a, ev) ==
  LET nfa    == a.aut
      slots  == ev.slots
      n      == Len(slots)
      lm     == a.kind # "STD"
      nodeOf == MapSlots(nfa, slots, 1, <<>>)
  IN /\ n = Cardinality(Nodes(nfa)) /\ ev.extra = <<>>
     /\ \A i \in 1..n : nodeOf[i] # 0
     /\ Cardinality({nodeOf[i] : i \in 1..n}) = n
     /\ \A i \in 2..n :
           LET f == slots[i].failidx sf == nfa.st[nodeOf[i]].fail IN
           IF sf = DEAD THEN f = 0 ELSE f >= 1 /\ f <= n /\ nodeOf[f] = sf
     /\ \A i \in 1..n :
           LET rc  == RealChain(a, ev.outs, slots[i].opos)
               sc2 == SpecChain(a, nfa.st[nodeOf[i]].opos) IN
           IF lm THEN HeadOf(rc) = HeadOf(sc2) ELSE rc = sc2
     /\ ev.dead.opos = 0 /\ ev.dead.fail = (IF a.var = "B" THEN 0 ELSE 1)
     /\ (a.var = "C" => {ev.mapper[m][1] : m \in 1..Len(ev.mapper)} = nfa.alpha)

\* Is the dumped table, as an automaton, indistinguishable from the specification's automaton for
\* every iterator and every haystack?  (Sound also when only a subset of the labels is explored.)
TableEquiv(a, ev) ==
  LET nfa   == a.aut
      slots == ev.slots
      n     == Len(slots)
      lm    == a.kind # "STD"
      depth == DepthsOf(slots, 1, <<>>)
      wellFormed ==
        /\ n >= 1
        /\ \A k \in 1..Len(ev.outs) : ev.outs[k].parent >= 0 /\ ev.outs[k].parent < k
        /\ \A i \in 1..n : slots[i].opos >= 0 /\ slots[i].opos <= Len(ev.outs)
        /\ ev.dead.opos >= 0 /\ ev.dead.opos <= Len(ev.outs) /\ ev.dead.fail \in {0, 1}
        /\ slots[1].failidx \in {0, 1}
        \* no fail cycle (otherwise the transition function itself does not terminate)
        /\ \A i \in 2..n : LET f == slots[i].failidx IN f = 0 \/ (f >= 1 /\ f <= n /\ depth[f] < depth[i])
        /\ \A k \in 1..Len(ev.extra) :
              /\ ev.extra[k].from >= 1 /\ ev.extra[k].from <= n
              /\ ev.extra[k].toidx = -1 \/ (ev.extra[k].toidx >= 1 /\ ev.extra[k].toidx <= n)
        \* the char-wise dead slot fails to itself: entering it with the standard transition
        \* function never comes back
        /\ (a.var = "C" /\ ~lm) =>
              /\ \A i \in 1..n : slots[i].failidx # 0
              /\ \A k \in 1..Len(ev.extra) : ev.extra[k].toidx # -1
      ra    == RealAut(a, ev)
      used  == CharsIn(a.pats) \cup {slots[j].lab : j \in 2..n} \cup {ev.extra[k].lab : k \in 1..Len(ev.extra)}
      fresh == IF a.var = "B"
               THEN (LET free == (0..255) \ used IN IF free = {} THEN {} ELSE {CHOOSE x \in free : \A y \in free : x <= y})
               ELSE {CHOOSE x \in {1114111, 1114110, 1114109} : x \notin used}
      budget == IF n = 0 THEN 8 ELSE (120000 \div n)
      keep   == IF budget < 8 THEN 8 ELSE budget
      someOf == IF Cardinality(used) <= keep THEN used
                ELSE LET sq == SetToSeq(used) IN {sq[k] : k \in 1..keep}
      L     == someOf \cup fresh
  IN wellFormed /\ (ExactMatch(a, ev) \/ BisimRounds(ra, nfa, a, lm, L, {<<1, 1>>}, {<<1, 1>>}))

AbsKey(a) == <<"absok", a.kind, a.bpats, [i \in 1..Len(a.pats) |-> ValStr(a, i)]>>

TableFails(s, a, ev) ==
  IF IsBig(a.pats) THEN {} ELSE
  LET nfa    == a.aut
      slots  == ev.slots
      n      == Len(slots)
      nodeOf == MapSlots(nfa, slots, 1, <<>>)
      depth  == DepthsOf(slots, 1, <<>>)
      lm     == a.kind # "STD"
      iso    == /\ n = Cardinality(Nodes(nfa))
                /\ ev.extra = <<>>
                /\ \A i \in 1..n : nodeOf[i] # 0
                /\ Cardinality({nodeOf[i] : i \in 1..n}) = n
      outsRanked == \A k \in 1..Len(ev.outs) : ev.outs[k].parent >= 0 /\ ev.outs[k].parent < k
      oposOK == \A i \in 1..n : slots[i].opos >= 0 /\ slots[i].opos <= Len(ev.outs)
      TP     == SEARCHPROPS
      failOK == \A i \in 1..n :
                  LET f  == slots[i].failidx
                      sf == nfa.st[nodeOf[i]].fail IN
                  IF i = 1 THEN TRUE
                  ELSE IF sf = DEAD THEN f = 0
                  ELSE f >= 1 /\ f <= n /\ nodeOf[f] = sf
      outsOK == \A i \in 1..n :
                  LET rc  == RealChain(a, ev.outs, slots[i].opos)
                      sc2 == SpecChain(a, nfa.st[nodeOf[i]].opos) IN
                  IF lm THEN HeadOf(rc) = HeadOf(sc2) ELSE rc = sc2
      equiv  == TableEquiv(a, ev)
      \* this table encodes the trie of the specification and behaves like its automaton
      absOK  == iso /\ equiv
  IN
     \* relational properties: the same automaton as the reference table of this scenario
     \* (C09: restored = original, C11: other num_free_blocks = default)
     Chk("table.same_as_reference", {"C09", "C11"},
         TableKey(a) \in DOMAIN s.seen => NormTable(ev) = s.seen[TableKey(a)])
     \* trie shape: exactly the spec's edges, for all 256 bytes / all mapper codes
  \cup Chk("table.edges_exact", TP \cup {"C15"}, iso)
  \cup Chk("table.count", {"C15", "C11"}, n = ev.num_states /\ n = Cardinality(Nodes(nfa)))
     \* closure of all reachable indices under every label (C07)
  \cup Chk("table.closure", {"C07", "C11"} \cup (IF a.restored THEN {"C09"} ELSE {}),
           /\ ev.oob = 0
           /\ ev.block >= 1 /\ ev.len % ev.block = 0 /\ ev.len >= ev.block
           /\ IF a.var = "B" THEN ev.block = 256
              ELSE /\ ev.block = Pow2AtLeast(IF ev.alphabet < 2 THEN 2 ELSE ev.alphabet, 1)
                   /\ ev.mapper_ok
                   /\ \A m \in 1..Len(ev.mapper) : ev.mapper[m][2] >= 0 /\ ev.mapper[m][2] < ev.alphabet
           /\ \A i \in 1..n : /\ slots[i].base >= 0 /\ slots[i].base < ev.len
                              /\ slots[i].slot < ev.len
                              /\ slots[i].failidx # -1
           /\ oposOK /\ outsRanked)
     \* the code mapper: a bijection onto 0..alphabet-1 whose domain covers every character
     \* of a reportable pattern and nothing outside the input patterns
  \cup Chk("table.mapper", TP,
           a.var = "C" =>
             LET dom == {ev.mapper[m][1] : m \in 1..Len(ev.mapper)} IN
             /\ ev.mapper_ok
             /\ Cardinality(dom) = Len(ev.mapper) /\ Len(ev.mapper) = ev.alphabet
             /\ {ev.mapper[m][2] : m \in 1..Len(ev.mapper)} = 0..(ev.alphabet - 1)
             /\ dom \subseteq nfa.alpha
             /\ UNION {{a.pats[i][k] : k \in 1..Len(a.pats[i])} :
                          i \in Reportable(a.pats, a.kind)} \subseteq dom)
     \* ranking (C13): fail links lead to strictly shallower states (or DEAD), output parents
     \* to strictly smaller positions
  \cup Chk("table.ranking", {"C13"},
           /\ outsRanked
           /\ \A i \in 2..n :
                LET f == slots[i].failidx IN
                (f = 0 /\ lm) \/ (f >= 1 /\ f <= n /\ depth[f] < depth[i])
           /\ slots[1].failidx \in {0, 1})
     \* goto edges form a tree: every edge found (for all 256 bytes / all codes) leads to a state
     \* exactly one level deeper that no other edge reaches -- the amortised 2n argument needs
     \* a goto to raise the depth by exactly one
  \cup Chk("table.goto_tree", {"C13"}, ev.extra = <<>>)
     \* the transition function, for every reachable state and every label of the alphabet
     \* plus unmapped ones, obtained from the implementation's own next_state_id*
  \cup Chk("table.delta_exact", IF lm THEN {} ELSE TP,
           iso =>
             \A k \in 1..Len(ev.nexts) :
               LET e == ev.nexts[k] IN
               /\ e[1] >= 1 /\ e[1] <= n /\ e[3] >= 1 /\ e[3] <= n
               /\ nodeOf[e[3]] = NextStateR(nfa, nodeOf[e[1]], e[2], lm).t)
     \* fail links (needed for the for-all-haystacks argument when `nexts` is not dumped)
     \* fail links and output lists are not compared slot by slot: what must hold is that no
     \* iterator can tell the table from the specification's automaton on any haystack
     \* (bisimulation from the root under every label of the patterns, every label of an edge
     \* found in the table and one unmapped label; observations: the output chain, for the
     \* leftmost kinds being at the root and the head of the chain).  An implementation whose
     \* fail links differ but behave alike is accepted.
  \cup Chk("table.equivalent", TP, equiv)
     \* C06 for every haystack: an edge that is not a trie edge (two states sharing a BASE, an
     \* unsanitised CHECK ...) makes the search report, after reading path(u).c, the outputs of a
     \* state v with a different string; each such output must still be a suffix of what was read
  \cup Chk("table.reports_only_occurrences", {"C06"},
           outsRanked /\ oposOK =>
             LET paths == PathsOf(slots) IN
             \A k \in 1..Len(ev.extra) :
               LET e == ev.extra[k] IN
               (e.toidx >= 1 /\ e.toidx <= n /\ e.from >= 1 /\ e.from <= n) =>
                 LET w  == Append(paths[e.from], e.lab)
                     ch == RealChain(a, ev.outs, slots[e.toidx].opos)
                     hd == IF lm THEN HeadOf(ch) ELSE ch IN
                 \A x \in 1..Len(hd) :
                   \E j \in 1..Len(a.pats) :
                     /\ ValStr(a, j) = hd[x][2] /\ Len(a.bpats[j]) = hd[x][1]
                     /\ IsSuffixOf(a.pats[j], w))
     \* output lists of the standard automaton are canonical (patterns that are suffixes, longest first)
  \cup Chk("table.outputs_exact", (IF lm THEN {} ELSE TP) \cup {"C06"}, iso /\ outsRanked /\ oposOK => outsOK)
     \* C08 (relational): the byte-wise twin built from the UTF-8 bytes of the same patterns and the
     \* char-wise automaton are either both exactly the specification's automata or both are not
  \cup Chk("table.twin_agrees", {"C08"},
           a.var = "C" /\ AbsKey(a) \in DOMAIN s.seen => s.seen[AbsKey(a)] = absOK)
  \cup Chk("table.kind", {"C09"} \cup TP,
           ev.kindbyte = (CASE a.kind = "STD" -> 0 [] a.kind = "LL" -> 1 [] a.kind = "LF" -> 2))

\* does the table of a byte-wise automaton encode exactly the specification's automaton?
\* (the conjuncts of TableFails that are absolute, evaluated regardless of PROP)
TableAbsOK(a, ev) ==
  LET nfa    == a.aut
      slots  == ev.slots
      n      == Len(slots)
      nodeOf == MapSlots(nfa, slots, 1, <<>>)
      iso    == /\ n = Cardinality(Nodes(nfa)) /\ ev.extra = <<>>
                /\ \A i \in 1..n : nodeOf[i] # 0
                /\ Cardinality({nodeOf[i] : i \in 1..n}) = n
  IN iso /\ TableEquiv(a, ev)

\* ---------------------------------------------------------------------------
\* other events
\* ---------------------------------------------------------------------------
RoundtripFails(a, ev) ==
  Chk("roundtrip.equal", {"C09"}, ev.eq)
  \cup Chk("roundtrip.remainder", {"C09"},
           ev.rest_ok /\ ev.restlen = Len(ev.trail) /\ ev.src_untouched)
  \cup Chk("roundtrip.reserialize", {"C09"}, ev.reser_ok)
  \* the restored automaton reports the statistics of the original
  \cup Chk("roundtrip.statistics", {"C09", "C15"},
           /\ ev.stats[1] = ev.stats[2] /\ ev.stats[3] = ev.stats[4]
           /\ ev.elements[1] = ev.elements[2])

PairSet(a) == {<<a.pats[i], ValStr(a, i)>> : i \in 1..Len(a.pats)}
SameFails(a, b, ev) ==
  LET sameSetting == a.var = b.var /\ a.kind = b.kind /\ a.nfb = b.nfb /\ a.vt = b.vt
      identical   == sameSetting /\ a.pats = b.pats /\ PairSet(a) = PairSet(b)
      permuted    == sameSetting /\ Len(a.pats) = Len(b.pats) /\ PairSet(a) = PairSet(b)
      required    == identical \/ (permuted /\ a.kind # "LF")
  IN Chk("same.deterministic", {"C14"}, required => ev.eq /\ ev.bytes_eq)

PureFails(ev) == Chk("pure.unchanged", {"C14"}, ev.eq /\ ev.bytes_eq)

DecodeFails(ev) ==
  Chk("decode.exact", {"C07", "C08"},
      /\ DecodeSafe(ev.bytes)
      /\ [i \in 1..Len(ev.res) |-> <<ev.res[i][1], ev.res[i][2]>>] = DecodeAll(ev.bytes))

\* stepwise iterators (C12: interleavings of next() calls with inspection of the source)
IterOf(a, ev) ==
  [h |-> ev.h, method |-> ev.method, entry |-> ev.entry, hay |-> ev.hay,
   syms |-> SymsOf(a, ev.hay), it |-> NewIter(ev.method), n |-> 0, nm |-> 0]

\* a streaming source has delivered only the first `avail` bytes so far (characters are never split)
AvailOf(ir, ev) == IF "avail" \in DOMAIN ev THEN ev.avail ELSE Len(ir.hay)
SymsUpTo(syms, avail) == SubSeq(syms, 1, Cardinality({j \in 1..Len(syms) : syms[j][1] <= avail}))

NextFails(s, a, ir, ev) ==
  LET r   == NextCall(a.aut, ir.it, SymsUpTo(ir.syms, AvailOf(ir, ev)), a.var)
      got == Got(ev.res)
      exp == IF r.m = <<>> THEN <<>> ELSE WithVals(a, <<r.m>>)
      rp  == {MethodProp(ir.method, a.kind)}
  IN Chk("next.equals_model", rp, got = exp)
     \* C12/C14: the matches come out as in the reference run (slice entry, uninterrupted) of the
     \* same search: each returned match is the next one of the reference, and when the whole
     \* haystack has been delivered and the iterator reports exhaustion nothing is missing
     \cup Chk("next.same_as_reference", {"C12", "C14"},
              LET key == RefKey(a, ir.method, ir.hay) IN
              key \in DOMAIN s.seen =>
                 LET ref == s.seen[key] IN
                 IF got # <<>> THEN ir.nm + 1 <= Len(ref) /\ got = <<ref[ir.nm + 1]>>
                 ELSE AvailOf(ir, ev) = Len(ir.hay) => ir.nm = Len(ref))
     \cup Chk("next.lazy", {"C12"},
              ir.entry \in {"iter", "stream"} =>
                 /\ ev.pulled = Pulled(r.it, ir.syms)
                 /\ (r.m # <<>> => ev.pulled = r.m[2])
                 /\ (r.m = <<>> => ev.pulled = AvailOf(ir, ev)))
     \cup Chk("next.linear", {"C13"}, ev.probes <= 2 * Pulled(r.it, ir.syms))

\* internal iteration on a live iterator (fold / for_each / count / last called on the concrete
\* iterator type): everything that repeated next() calls would still have produced from the
\* iterator's current state, pending outputs included
DrainRun(a, ir, ev) ==
  LET sy == SymsUpTo(ir.syms, AvailOf(ir, ev)) IN
  RunN(a.aut, ir.it, sy, a.var, (Len(sy) + 1) * (Len(a.aut.outs) + 1) + 1)
DrainOK(exp, ev) ==
  CASE ev.mode \in {"fold", "for_each"} -> Got(ev.res) = exp /\ ev.n = Len(exp)
    [] ev.mode = "count" -> ev.n = Len(exp)
    [] OTHER -> Got(ev.last) = (IF exp = <<>> THEN <<>> ELSE <<exp[Len(exp)]>>)
DrainFails(s, a, ir, ev) ==
  LET exp == WithVals(a, DrainRun(a, ir, ev).ms)
      key == RefKey(a, ir.method, ir.hay)
  IN Chk("drain.equals_model", {MethodProp(ir.method, a.kind)}, DrainOK(exp, ev))
     \cup Chk("drain.same_as_reference", {"C12", "C14"},
              (key \in DOMAIN s.seen /\ AvailOf(ir, ev) = Len(ir.hay) /\ ir.nm <= Len(s.seen[key])) =>
                 DrainOK(SubSeq(s.seen[key], ir.nm + 1, Len(s.seen[key])), ev))
     \cup Chk("drain.lazy", {"C12"},
              ir.entry \in {"iter", "stream"} => ev.pulled = AvailOf(ir, ev))

\* ---------------------------------------------------------------------------
\* Guard and effect of each event kind
\* ---------------------------------------------------------------------------
HasAuto(s, h) == h \in DOMAIN s.autos
HasIter(s, i) == i \in DOMAIN s.iters

\* r: the specification's own construction for a build event (computed once per event)
Fails(s, ev, r) ==
  CASE ev.ev = "build" -> BuildFails(ev, r)
    [] ev.ev = "table" ->
         IF HasAuto(s, ev.h) THEN TableFails(s, s.autos[ev.h], ev) ELSE {"unknown_handle"}
    [] ev.ev = "search" ->
         IF HasAuto(s, ev.h) THEN SearchFails(s, s.autos[ev.h], ev) ELSE {"unknown_handle"}
    [] ev.ev = "consume" ->
         IF HasAuto(s, ev.h) THEN ConsumeFails(s, s.autos[ev.h], ev) ELSE {"unknown_handle"}
    [] ev.ev = "roundtrip" ->
         IF HasAuto(s, ev.h) THEN RoundtripFails(s.autos[ev.h], ev) ELSE {"unknown_handle"}
    [] ev.ev = "same" ->
         IF HasAuto(s, ev.h1) /\ HasAuto(s, ev.h2)
         THEN SameFails(s.autos[ev.h1], s.autos[ev.h2], ev) ELSE {"unknown_handle"}
    [] ev.ev = "pure" -> PureFails(ev)
    \* a search method called on an automaton of the other match kind is documented to panic at
    \* once; whatever it does, it must come back (C13: every search call returns) -- the hop
    \* limit of the hook firing, or an endless stream of results, is a call that would not
    [] ev.ev = "mismatch" ->
         IF HasAuto(s, ev.h)
         THEN Chk("mismatch.terminates", {"C13"}, ~ev.hoplimit /\ ~ev.capped) ELSE {"unknown_handle"}
    [] ev.ev = "decode" -> DecodeFails(ev)
    [] ev.ev = "iter_new" -> IF HasAuto(s, ev.h) THEN {} ELSE {"unknown_handle"}
    [] ev.ev = "clone" -> IF HasAuto(s, ev.h) THEN {} ELSE {"unknown_handle"}
    [] ev.ev = "next" ->
         IF HasIter(s, ev.it)
         THEN NextFails(s, s.autos[s.iters[ev.it].h], s.iters[ev.it], ev) ELSE {"unknown_iter"}
    [] ev.ev = "drain" ->
         IF HasIter(s, ev.it)
         THEN DrainFails(s, s.autos[s.iters[ev.it].h], s.iters[ev.it], ev) ELSE {"unknown_iter"}
    \* a crash (abort by std's unsafe-precondition checks, panic, hop limit) is never allowed
    [] ev.ev = "crash" -> {"crash"}
    [] OTHER -> {"unknown_event"}

Eff(s, ev, r) ==
  CASE ev.ev = "build" ->
         IF ev.outcome = "ok" /\ r.res = "ok"
         THEN [s EXCEPT !.autos = (ev.h :> AutoOf(ev, r)) @@ @] ELSE s
    [] ev.ev = "search" ->
         LET key == RefKey(s.autos[ev.h], ev.method, ev.hay) IN
         IF key \in DOMAIN s.seen THEN s ELSE [s EXCEPT !.seen = (key :> Got(ev.res)) @@ @]
    [] ev.ev = "table" ->
         LET a   == s.autos[ev.h]
             key == TableKey(a)
             s1  == IF key \in DOMAIN s.seen THEN s ELSE [s EXCEPT !.seen = (key :> NormTable(ev)) @@ @]
         IN \* C08: remember whether the byte-wise twin is exact
            IF PROP = "C08" /\ a.var = "B" /\ ~IsBig(a.pats) /\ AbsKey(a) \notin DOMAIN s1.seen
            THEN [s1 EXCEPT !.seen = (AbsKey(a) :> TableAbsOK(a, ev)) @@ @] ELSE s1
    [] ev.ev = "roundtrip" ->
         [s EXCEPT !.autos = (ev.h2 :> [s.autos[ev.h] EXCEPT !.restored = TRUE]) @@ @]
    [] ev.ev = "clone" -> [s EXCEPT !.autos = (ev.h2 :> s.autos[ev.h]) @@ @]
    [] ev.ev = "iter_new" ->
         [s EXCEPT !.iters = (ev.it :> IterOf(s.autos[ev.h], ev)) @@ @]
    [] ev.ev = "next" ->
         LET ir == s.iters[ev.it]
             nc == NextCall(s.autos[ir.h].aut, ir.it, SymsUpTo(ir.syms, AvailOf(ir, ev)), s.autos[ir.h].var)
         IN [s EXCEPT !.iters[ev.it].it = nc.it, !.iters[ev.it].n = @ + 1,
                      !.iters[ev.it].nm = @ + (IF ev.res = <<>> THEN 0 ELSE 1)]
    \* the iterator was moved into the call: it no longer exists
    [] ev.ev = "drain" -> [s EXCEPT !.iters = [k \in DOMAIN @ \ {ev.it} |-> @[k]]]
    [] OTHER -> s

\* ---------------------------------------------------------------------------
Init == l = 1 /\ st = EmptyState /\ skip = FALSE /\ bad = <<>> /\ sc = -1

Step ==
  /\ l <= Len(Rec)
  /\ l' = l + 1
  /\ LET ev == Rec[l] IN
     IF ev.ev = "reset"
     THEN st' = EmptyState /\ skip' = FALSE /\ sc' = ev.sc /\ UNCHANGED bad
     ELSE IF skip THEN UNCHANGED <<st, skip, bad, sc>>
     ELSE LET r == IF ev.ev = "build" THEN SpecBuild(ev) ELSE <<>>
              f == Fails(st, ev, r) IN
          IF f = {}
          THEN st' = Eff(st, ev, r) /\ UNCHANGED <<skip, bad, sc>>
          ELSE /\ bad' = Append(bad, [line |-> l, sc |-> sc, ev |-> ev.ev, fails |-> SetToSeq(f)])
               /\ skip' = TRUE /\ UNCHANGED <<st, sc>>

\* after the last line: report once
Done ==
  /\ l = Len(Rec) + 1
  /\ PrintT(<<"RESULT", ToJson([consumed |-> l - 1, total |-> Len(Rec), bad |-> bad])>>)
  /\ l' = l + 1
  /\ UNCHANGED <<st, skip, bad, sc>>

Next == Step \/ Done
Spec == Init /\ [][Next]_vars
=============================================================================
