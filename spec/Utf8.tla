-------------------------------- MODULE Utf8 --------------------------------
(***************************************************************************)
(* UTF-8: the encoder (meaning of `char::len_utf8` / `str` bytes) and a    *)
(* transcription of the hand-written end-offset decoder                    *)
(* `CharWithEndOffsetIterator::next` (src/charwise/iter.rs:72-98).         *)
(* The decoder is modelled with two ghost results: `oob` (it would pull    *)
(* past the end of the source: `unwrap_unchecked(None)`) and `bad` (the    *)
(* value handed to `char::from_u32_unchecked` is not a scalar value).      *)
(***************************************************************************)
EXTENDS Naturals, Sequences, FiniteSets, SequencesExt

IsScalar(c) == (c >= 0 /\ c <= 55295) \/ (c >= 57344 /\ c <= 1114111)

Width(c) == IF c < 128 THEN 1 ELSE IF c < 2048 THEN 2 ELSE IF c < 65536 THEN 3 ELSE 4

Enc(c) ==
  IF c < 128 THEN <<c>>
  ELSE IF c < 2048 THEN <<192 + (c \div 64), 128 + (c % 64)>>
  ELSE IF c < 65536 THEN <<224 + (c \div 4096), 128 + ((c \div 64) % 64), 128 + (c % 64)>>
  ELSE <<240 + (c \div 262144), 128 + ((c \div 4096) % 64), 128 + ((c \div 64) % 64), 128 + (c % 64)>>

\* concatenation of f(lo) .. f(hi) by divide and conquer (logarithmic recursion depth, n log n copying)
RECURSIVE CatRange(_, _, _)
CatRange(f(_), lo, hi) ==
  IF lo > hi THEN <<>>
  ELSE IF lo = hi THEN f(lo)
  ELSE LET mid == (lo + hi) \div 2 IN CatRange(f, lo, mid) \o CatRange(f, mid + 1, hi)
RECURSIVE SumRange(_, _, _)
SumRange(f(_), lo, hi) ==
  IF lo > hi THEN 0
  ELSE IF lo = hi THEN f(lo)
  ELSE LET mid == (lo + hi) \div 2 IN SumRange(f, lo, mid) + SumRange(f, mid + 1, hi)

EncSeq(cs) == CatRange(LAMBDA i : Enc(cs[i]), 1, Len(cs))

\* byte length of a sequence of code points (nfa_builder.rs:81-85 for chars)
ByteLen(cs) == SumRange(LAMBDA i : Width(cs[i]), 1, Len(cs))

\* one `next()` of the decoder on byte sequence b having already pulled i bytes.
\* Result: [end, cp, oob, bad]; end = number of bytes pulled afterwards.
DecodeStep(b, i) ==
  LET n     == Len(b)
      first == b[i + 1]
      Get(k) == IF k <= n THEN b[k] ELSE 0
  IN
  IF first < 128 THEN [end |-> i + 1, cp |-> first, oob |-> FALSE, bad |-> FALSE]
  ELSE
    LET r1 == Get(i + 2)
        c1 == r1 % 64
    IN
    IF first < 224 THEN
      LET c == (first % 32) * 64 + c1 IN
      [end |-> i + 2, cp |-> c, oob |-> i + 2 > n, bad |-> ~IsScalar(c)]
    ELSE
      LET r2 == Get(i + 3)
          c2 == c1 * 64 + (r2 % 64)
      IN
      IF first < 240 THEN
        LET c == (first % 16) * 4096 + c2 IN
        [end |-> i + 3, cp |-> c, oob |-> i + 3 > n, bad |-> ~IsScalar(c)]
      ELSE
        LET r3 == Get(i + 4)
            c3 == c2 * 64 + (r3 % 64)
            c  == (first % 8) * 262144 + c3
        IN [end |-> i + 4, cp |-> c, oob |-> i + 4 > n, bad |-> ~IsScalar(c)]

\* The symbol stream of a whole UTF-8 text: sequence of <<end offset, code point>>, i.e. what
\* repeated next() calls of the decoder return.  In valid UTF-8 a character starts exactly at the
\* bytes that are not continuation bytes (0x80-0xBF), so the stream is DecodeStep applied at every
\* such offset; DecodeSafe checks that each step ends where the next one starts (the decoder
\* really is a sequential reader) and never over-reads or fabricates a non-scalar.
CharStarts(b) == {i \in 0..(Len(b) - 1) : b[i + 1] < 128 \/ b[i + 1] > 191}
StartSeq(b) == SortSeq(SetToSeq(CharStarts(b)), LAMBDA x, y : x < y)
DecodeAll(b) ==
  LET st == StartSeq(b) IN
  <<>> \o [k \in 1..Len(st) |-> LET d == DecodeStep(b, st[k]) IN <<d.end, d.cp>>]

DecodeSafe(b) ==
  LET st == StartSeq(b) IN
  /\ (Len(b) > 0 => Len(st) > 0 /\ st[1] = 0)
  /\ \A k \in 1..Len(st) :
        LET d == DecodeStep(b, st[k]) IN
        /\ ~d.oob /\ ~d.bad
        /\ d.end = (IF k = Len(st) THEN Len(b) ELSE st[k + 1])

\* the symbol stream of a byte-wise text: <<i, b[i]>>
\* (the concatenation forces TLC to build a concrete tuple instead of a lazily evaluated function:
\* Len and indexing are then O(1))
ByteSyms(b) == <<>> \o [i \in 1..Len(b) |-> <<i, b[i]>>]

\* character boundaries of a UTF-8 byte text (C08)
CharBoundaries(b) == CharStarts(b) \cup {Len(b)}
=============================================================================
